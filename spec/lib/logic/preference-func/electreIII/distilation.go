// Reference implementation (specification) for the RealDecisionMaker verification framework.
//
// This file is NOT part of the repository build. The analyzer (/verif/analyzer) loads it as an
// in-memory overlay next to the package it describes and compares, statically, the value graph of
// every Spec_X declaration with that of the repository's X (see DESIGN.md, engine E5). Each
// function states what the corresponding repository function has to compute according to
// /verif/properties.jsonl; it was reviewed against the property statements, not generated at
// check time, and it is never executed.

package electreIII

import (
	"fmt"
	"github.com/Azbesciak/RealDecisionMaker/lib/utils"
)

func Spec_RankAscending(matrix *AlternativesMatrix, distillationFun *utils.LinearFunctionParameters) *[]int {
	return Spec_rank(matrix, distillationFun, Spec_greater)
}

func Spec_RankDescending(matrix *AlternativesMatrix, distillationFun *utils.LinearFunctionParameters) *[]int {
	ranking := Spec_rank(matrix, distillationFun, Spec_lower)
	maxPosition := Spec_Max(ranking)
	Spec_minusValuesFrom(ranking, maxPosition+1)
	return ranking
}

func Spec_Max(values *[]int) int {
	if len(*values) == 0 {
		panic(fmt.Errorf("slice is empty"))
	}
	best := (*values)[0]
	for _, v := range *values {
		if v > best {
			best = v
		}
	}
	return best
}

func Spec_minusValuesFrom(values *[]int, value int) {
	for i, v := range *values {
		(*values)[i] = value - v
	}
}

func Spec_rank(matrix *AlternativesMatrix, distillationFun *utils.LinearFunctionParameters, evaluateFunction CompareFunction) *[]int {
	position := 1
	withoutD := Spec_removeDiagonal(matrix)
	maxCred := withoutD.Spec_Max()
	positions := make([]int, len(*matrix.Alternatives))
	indices := make([]int, len(positions))
	for i := range indices {
		indices[i] = i
	}
	return Spec_distillate(maxCred, position, withoutD, distillationFun, evaluateFunction, false)
}

func Spec_samePositions(size, value int) *[]int {
	pos := make([]int, size)
	for i := range pos {
		pos[i] = value
	}
	return &pos
}

func Spec_distillate(
	maxCred float64, position int,
	matrix *Matrix,
	distillationFun *utils.LinearFunctionParameters,
	evaluateFunction CompareFunction,
	isInner bool,
) *[]int {
	if maxCred == 0 {
		return Spec_samePositions(matrix.Size, position)
	}
	minCred, valuesToConsider := Spec_getDistillateMatrix(distillationFun, maxCred, matrix)
	quality := Spec_computeQuality(valuesToConsider)
	_, bestIndices := Spec_findBestMatch(quality, evaluateFunction)
	positions := Spec_samePositions(matrix.Size, 0)
	Spec_updatePositions(position, minCred, matrix, bestIndices, positions, distillationFun, evaluateFunction)
	indicesLeftToUpdate := Spec_updatedPositions(bestIndices, positions)
	if len(*indicesLeftToUpdate) == matrix.Size || isInner {
		return positions
	}
	position++
	nextIterationMatrix := matrix.Spec_Without(indicesLeftToUpdate)
	furtherPositions := Spec_distillate(nextIterationMatrix.Spec_Max(), position, nextIterationMatrix, distillationFun, evaluateFunction, false)
	Spec_writePositionsSequentially(furtherPositions, positions)
	return positions
}

func Spec_writePositionsSequentially(positionsToWrite, positions *[]int) {
	toWriteIndex := 0
	for i, p := range *positions {
		if p == 0 {
			if toWriteIndex >= len(*positionsToWrite) {
				panic(fmt.Errorf(
					"position %d is out of scope for possible possitions %v and all positions %v",
					i, *positionsToWrite, *positions,
				))
			}
			(*positions)[i] = (*positionsToWrite)[toWriteIndex]
			toWriteIndex++
		}
	}
}

func Spec_updatedPositions(indices, positions *[]int) *[]int {
	newValues := make([]int, 0)
	for _, p := range *indices {
		if (*positions)[p] != 0 {
			newValues = append(newValues, p)
		}
	}
	return &newValues
}

func Spec_updatePositions(
	position int, minCred float64,
	valuesToConsider *Matrix, bestIndices, positions *[]int,
	distillationFun *utils.LinearFunctionParameters, evaluateFunction CompareFunction,
) {
	bestIndicesNum := len(*bestIndices)
	if bestIndicesNum > 1 && minCred > 0 {
		nextToFilter := valuesToConsider.Spec_Slice(bestIndices)
		subPositions := Spec_distillate(minCred, position, nextToFilter, distillationFun, evaluateFunction, true)
		Spec_updateValues(bestIndices, positions, subPositions)
	} else if bestIndicesNum > 0 {
		Spec_updateValues(bestIndices, positions, Spec_samePositions(bestIndicesNum, position))
	}
}

func Spec_getDistillateMatrix(distillationFun *utils.LinearFunctionParameters, maxCred float64, matrix *Matrix) (float64, *Matrix) {
	v, _ := distillationFun.Spec_Evaluate(maxCred)
	minCredThreshold := maxCred - v
	minCred := matrix.Spec_FindBest(func(old, new float64) bool {
		// ok because the lowest value is 0, on diagonal for sure.
		return new < minCredThreshold && new > old
	})
	valuesToConsider := matrix.Spec_Filter(func(row, col int, v float64) bool {
		if v <= minCred {
			return false
		}
		funcValueForThisField, _ := distillationFun.Spec_Evaluate(v)
		value := matrix.Spec_At(col, row) + funcValueForThisField
		return v > value
	})
	return minCred, valuesToConsider
}

func Spec_updateValues(indicesToUpdate, original, new *[]int) {
	for i, v := range *indicesToUpdate {
		(*original)[v] = (*new)[i]
	}
}

func Spec_removeDiagonal(matrix *AlternativesMatrix) *Matrix {
	return matrix.Values.Spec_Filter(func(row, col int, v float64) bool {
		return row != col
	})
}

func Spec_computeQuality(matrix *Matrix) *[]int {
	strength := matrix.Spec_MatchesInRow(utils.Spec_IsPositive)
	weakness := matrix.Spec_MatchesInColumn(utils.Spec_IsPositive)
	return Spec_calcQuality(&strength, &weakness)
}

func Spec_calcQuality(strength, weakness *[]int) *[]int {
	quality := make([]int, len(*strength))
	for i, s := range *strength {
		quality[i] = s - (*weakness)[i]
	}
	return &quality
}

func Spec_greater(old, new int) bool {
	return old < new
}

func Spec_lower(old, new int) bool {
	return old > new
}

func Spec_findBestMatch(values *[]int, isBetter CompareFunction) (value int, indices *[]int) {
	bestValue := (*values)[0]
	bestIndices := make([]int, 0)
	for i, v := range *values {
		if isBetter(bestValue, v) {
			bestValue = v
			bestIndices = []int{i}
		} else if v == bestValue {
			bestIndices = append(bestIndices, i)
		}
	}
	return bestValue, &bestIndices
}

var Spec_DefaultDistillationFunc = utils.LinearFunctionParameters{A: -.15, B: .3}
