// Reference implementation (specification) for the RealDecisionMaker verification framework.
//
// This file is NOT part of the repository build. The analyzer (/verif/analyzer) loads it as an
// in-memory overlay next to the package it describes and compares, statically, the value graph of
// every Spec_X declaration with that of the repository's X (see DESIGN.md, engine E5). Each
// function states what the corresponding repository function has to compute according to
// /verif/properties.jsonl; it was reviewed against the property statements, not generated at
// check time, and it is never executed.

package electreIII

import (
	"fmt"
	"github.com/Azbesciak/RealDecisionMaker/lib/model"
	"github.com/Azbesciak/RealDecisionMaker/lib/utils"
)

func (e *ElectreIIIPreferenceFunc) Spec_ParseParams(dm *model.DecisionMaker) interface{} {
	return electreIIIParams{
		Criteria:        Spec_extractElectreIIICriteria(dm),
		DistillationFun: Spec_getDistillationFunc(dm),
	}
}

func Spec_extractElectreIIICriteria(dm *model.DecisionMaker) *ElectreCriteria {
	potentialEleCriteria, ok := dm.MethodParameters[criteria]
	if !ok {
		panic(fmt.Errorf("Criteria for electre not found in methodParameters: %v", dm.MethodParameters))
	}
	electreCriteria := make(ElectreCriteria)
	utils.Spec_DecodeToStruct(potentialEleCriteria, &electreCriteria)
	for _, criterion := range dm.Criteria {
		electreCriterion, cOk := electreCriteria[criterion.Id]
		if !cOk {
			panic(fmt.Errorf("criterion '%s' not found in electre Criteria: %v", criterion.Id, electreCriteria))
		}
		Spec_validateParameters(&criterion, &electreCriterion)
	}
	return &electreCriteria
}

func Spec_validateParameters(criterion *model.Criterion, crit *ElectreCriterion) {
	if crit.K <= 0 {
		panic(fmt.Errorf("electre criterion's weight must be positive, got %v for %s", crit.K, criterion.Id))
	}
	lastWeight := 0.0
	lastWeight = Spec_requireBValueAtLeast(&crit.Q, lastWeight, criterion.Id, "Q")
	lastWeight = Spec_requireBValueAtLeast(&crit.P, lastWeight, criterion.Id, "P")
	Spec_requireBValueAtLeast(&crit.V, lastWeight, criterion.Id, "V")
}

func Spec_requireBValueAtLeast(f *utils.LinearFunctionParameters, current float64, criterion, funcName string) float64 {
	if f.A == 0 && f.B != 0 && f.B <= current {
		panic(fmt.Errorf(
			"b parameter of electre pref func %s %v for criterion %s must be greater than %f",
			funcName, f, criterion, current,
		))
	}
	if f.B > 0 {
		return f.B
	}
	return current
}

func Spec_getDistillationFunc(dm *model.DecisionMaker) *utils.LinearFunctionParameters {
	params, ok := dm.MethodParameters[distillationFun]
	if !ok {
		return &DefaultDistillationFunc
	} else {
		parameters := utils.LinearFunctionParameters{}
		utils.Spec_DecodeToStruct(params, &parameters)
		if parameters.B < 0 || parameters.A+parameters.B < 0 {
			panic(fmt.Errorf("electre distillation function %v must not be negative for credibility in range [0, 1]", &parameters))
		}
		return &parameters
	}
}
