// Reference implementation (specification) for the RealDecisionMaker verification framework.
//
// This file is NOT part of the repository build. The analyzer (/verif/analyzer) loads it as an
// in-memory overlay next to the package it describes and compares, statically, the value graph of
// every Spec_X declaration with that of the repository's X (see DESIGN.md, engine E5). Each
// function states what the corresponding repository function has to compute according to
// /verif/properties.jsonl; it was reviewed against the property statements, not generated at
// check time, and it is never executed.

package owa

import (
	"github.com/Azbesciak/RealDecisionMaker/lib/model"
	"github.com/Azbesciak/RealDecisionMaker/lib/utils"
	"sort"
)

func (h *OwaBiasListener) Spec_Identifier() string {
	return methodName
}

func (h *OwaBiasListener) Spec_Merge(params model.MethodParameters, addition model.MethodParameters) model.MethodParameters {
	oldParams := params.(owaParams)
	newParams := Spec_additionAsOwaParams(addition)
	return *oldParams.Spec_merge(&newParams)
}

func Spec_additionAsOwaParams(addition model.MethodParameters) owaParams {
	if added, ok := addition.(model.WeightType); ok {
		ids := make([]string, 0, len(added.Weights))
		for id := range added.Weights {
			ids = append(ids, id)
		}
		sort.Strings(ids)
		weights := make(model.WeightedCriteria, len(ids))
		for i, id := range ids {
			weights[i] = model.WeightedCriterion{
				Criterion: model.Criterion{Id: id, Type: model.Gain},
				Weight:    added.Weights[id],
			}
		}
		return owaParams{Weights: &weights}
	}
	return addition.(owaParams)
}

func (h *OwaBiasListener) Spec_OnCriterionAdded(
	criterion *model.Criterion,
	referenceCriterion *model.Criterion,
	params model.MethodParameters,
	generator utils.ValueGenerator,
) model.MethodParameters {
	owaPar := params.(owaParams)
	referenceCriterionValue := owaPar.Spec_find(referenceCriterion)
	newWeight := generator() * referenceCriterionValue.Weight
	return model.Spec_SingleWeight(criterion, newWeight)
}

func (h *OwaBiasListener) Spec_OnCriteriaRemoved(
	leftCriteria *model.Criteria,
	params model.MethodParameters,
) model.MethodParameters {
	owaPar := params.(owaParams)
	newWeights := make(model.WeightedCriteria, len(*leftCriteria))
	for i, c := range *leftCriteria {
		newWeights[i] = *owaPar.Spec_find(&c)
	}
	return owaParams{Weights: &newWeights}
}

func (h *OwaBiasListener) Spec_RankCriteriaAscending(params *model.DecisionMakingParams) *model.WeightedCriteria {
	weights := *model.Spec_PrepareCumulatedWeightsMap(params, model.Spec_WeightIdentity)
	return params.Criteria.Spec_SortByWeights(weights)
}
