// Reference implementation (specification) for the RealDecisionMaker verification framework.
//
// This file is NOT part of the repository build. The analyzer (/verif/analyzer) loads it as an
// in-memory overlay next to the package it describes and compares, statically, the value graph of
// every Spec_X declaration with that of the repository's X (see DESIGN.md, engine E5). Each
// function states what the corresponding repository function has to compute according to
// /verif/properties.jsonl; it was reviewed against the property statements, not generated at
// check time, and it is never executed.

package owa

import (
	"fmt"
	"github.com/Azbesciak/RealDecisionMaker/lib/model"
	"sort"
)

func (O *OWAPreferenceFunc) Spec_ParseParams(dm *model.DecisionMaker) interface{} {
	originalWeights := model.Spec_ExtractWeights(dm)
	weightsCount := len(originalWeights)
	if weightsCount != len(dm.Criteria) {
		panic(fmt.Errorf("Weights count (%d) not equal to criteria count (%d) for OWA", weightsCount, len(dm.Criteria)))
	}
	weights := Spec_toArray(&originalWeights, &dm.Criteria)
	Spec__sortWeightsMutate(weights)
	return owaParams{Weights: weights}
}

func Spec_toArray(weights *model.Weights, criteria *model.Criteria) *model.WeightedCriteria {
	result := make(model.WeightedCriteria, len(*weights))
	for i, v := range *criteria {
		result[i] = model.WeightedCriterion{Criterion: v, Weight: weights.Spec_Fetch(v.Id)}
	}
	return &result
}

func (O *OWAPreferenceFunc) Spec_Identifier() string {
	return methodName
}

func (O *OWAPreferenceFunc) Spec_MethodParameters() interface{} {
	return model.Spec_WeightsParamOnly()
}

func (O *OWAPreferenceFunc) Spec_Evaluate(dmp *model.DecisionMakingParams) *model.AlternativesRanking {
	weights := dmp.MethodParameters.(owaParams)
	prefFunc := func(alternative *model.AlternativeWithCriteria) *model.AlternativeResult {
		return Spec_OWA(*alternative, *weights.Weights)
	}
	return model.Spec_Rank(dmp, prefFunc)
}

func Spec_OWA(alternative model.AlternativeWithCriteria, weights model.WeightedCriteria) *model.AlternativeResult {
	sortedWeights := Spec_sortWeights(&weights)
	return Spec_owa(&alternative, sortedWeights)
}

func Spec_owa(alternative *model.AlternativeWithCriteria, sortedWeights *model.WeightedCriteria) *model.AlternativeResult {
	Spec_validateSameCriteriaAndWeightsCount(alternative, sortedWeights)
	sortedAlternativeCriteriaWeights := Spec_sortAlternativeCriteriaWeights(alternative)
	total := Spec_calculateTotalAlternativeValue(sortedWeights, sortedAlternativeCriteriaWeights)
	return model.Spec_ValueAlternativeResult(alternative, total)
}

func Spec_calculateTotalAlternativeValue(sortedWeights *model.WeightedCriteria, sortedCriteriaWeights *[]model.Weight) model.Weight {
	var total model.Weight = 0
	for i := range *sortedWeights {
		total += (*sortedCriteriaWeights)[i] * (*sortedWeights)[i].Weight
	}
	return total
}

func Spec_sortAlternativeCriteriaWeights(alternative *model.AlternativeWithCriteria) *[]model.Weight {
	tmpCriteria := make([]model.Weight, len(alternative.Criteria))
	i := 0
	for _, c := range alternative.Criteria {
		tmpCriteria[i] = c
		i += 1
	}
	sort.Float64s(tmpCriteria)
	return &tmpCriteria
}

func Spec_sortWeights(weights *model.WeightedCriteria) *model.WeightedCriteria {
	tmpWeights := make(model.WeightedCriteria, len(*weights))
	copy(tmpWeights, *weights)
	Spec__sortWeightsMutate(&tmpWeights)
	return &tmpWeights
}

func (o *owaParams) Spec_merge(other *owaParams) *owaParams {
	originalLen := len(*o.Weights)
	result := make(model.WeightedCriteria, originalLen+len(*other.Weights))
	validationCache := make(map[string]bool, originalLen+len(*other.Weights))
	Spec_addCriteria(o.Weights, &result, &validationCache, 0)
	Spec_addCriteria(other.Weights, &result, &validationCache, originalLen)
	Spec__sortWeightsMutate(&result)
	return &owaParams{Weights: &result}
}

func (o *owaParams) Spec_find(criterion *model.Criterion) *model.WeightedCriterion {
	for _, c := range *o.Weights {
		if c.Criterion.Id == criterion.Id {
			return &c
		}
	}
	panic(fmt.Errorf("criterion '%s' not found in criteria %v", criterion.Id, *o.Weights))
}

func Spec_addCriteria(toAdd, result *model.WeightedCriteria, validationCache *map[string]bool, offset int) {
	for i, w := range *toAdd {
		if _, ok := (*validationCache)[w.Id]; ok {
			Spec_criterionAlreadyExist(&w.Criterion, result)
		}
		(*result)[i+offset] = w
		(*validationCache)[w.Id] = true
	}
}

func Spec_criterionAlreadyExist(w *model.Criterion, result *model.WeightedCriteria) {
	panic(fmt.Errorf("criterion '%s' already exist in result %v", w, *result))
}

func Spec__sortWeightsMutate(weights *model.WeightedCriteria) {
	sort.SliceStable(*weights, func(i, j int) bool {
		return (*weights)[i].Weight < (*weights)[j].Weight
	})
}

func Spec_validateSameCriteriaAndWeightsCount(alternative *model.AlternativeWithCriteria, weights *model.WeightedCriteria) {
	alternativeCriteriaCount := len(alternative.Criteria)
	weightsCount := len(*weights)
	if alternativeCriteriaCount != weightsCount {
		panic(fmt.Errorf("criteria and Weights must have the same length, got %d and %d", alternativeCriteriaCount, weightsCount))
	}
}
