// Reference declarations of the struct types of this package (fields, types and tags as the API documents them).
// Loaded by the analyzer as an in-memory overlay only; see DESIGN.md, engine E5 (rule E5-types).

package owa

import (
	"github.com/Azbesciak/RealDecisionMaker/lib/model"
)

type Spec_OwaBiasListener struct {
}

type Spec_OWAPreferenceFunc struct {
}

type Spec_owaParams struct {
	Weights *model.WeightedCriteria `json:"weights"`
}
