// Reference implementation (specification) for the RealDecisionMaker verification framework.
//
// This file is NOT part of the repository build. The analyzer (/verif/analyzer) loads it as an
// in-memory overlay next to the package it describes and compares, statically, the value graph of
// every Spec_X declaration with that of the repository's X (see DESIGN.md, engine E5). Each
// function states what the corresponding repository function has to compute according to
// /verif/properties.jsonl; it was reviewed against the property statements, not generated at
// check time, and it is never executed.

package aspect_elimination

import (
	"github.com/Azbesciak/RealDecisionMaker/lib/logic/limited-rationality"
	"github.com/Azbesciak/RealDecisionMaker/lib/logic/limited-rationality/satisfaction-levels"
	"github.com/Azbesciak/RealDecisionMaker/lib/model"
	"github.com/Azbesciak/RealDecisionMaker/lib/utils"
	"sort"
)

func Spec_NewAspectEliminationHeuristic(
	functions []satisfaction_levels.SatisfactionLevelsSource,
	generator utils.SeededValueGenerator,
) *AspectEliminationHeuristic {
	return &AspectEliminationHeuristic{
		functions: functions,
		generator: generator,
	}
}

func (a *AspectEliminationHeuristicParams) Spec_with(params interface{}, weights *model.Weights) AspectEliminationHeuristicParams {
	return AspectEliminationHeuristicParams{
		Function:                   a.Function,
		Params:                     params,
		RandomSeed:                 a.RandomSeed,
		Weights:                    *weights,
		RandomAlternativesOrdering: a.RandomAlternativesOrdering,
	}
}

func (a *AspectEliminationHeuristic) Spec_Identifier() string {
	return methodName
}

func (a *AspectEliminationHeuristic) Spec_MethodParameters() interface{} {
	// C20: the schema served by /api/preferenceFunctions describes the parameters, not the heuristic
	return AspectEliminationHeuristicParams{}
}

func (a *AspectEliminationHeuristic) Spec_ParseParams(dm *model.DecisionMaker) interface{} {
	var params AspectEliminationHeuristicParams
	utils.Spec_DecodeToStruct(dm.MethodParameters, &params)
	// C20: missing weights, thresholds or out-of-range series parameters of a DECLARED criterion are rejected when the
	// request is parsed - a bias that later removes the criterion must not hide them
	dm.Criteria.Spec_ZipWithWeights(&params.Weights)
	satisfaction_levels.Spec_Find(params.Function, params.Params, a.functions).Initialize(&model.DecisionMakingParams{
		Criteria:                  dm.Criteria,
		NotConsideredAlternatives: dm.KnownAlternatives,
	})
	return params
}

func (a *AspectEliminationHeuristic) Spec_Evaluate(dmp *model.DecisionMakingParams) *model.AlternativesRanking {
	params := dmp.MethodParameters.(AspectEliminationHeuristicParams)
	satisfactionLevels := satisfaction_levels.Spec_Find(params.Function, params.Params, a.functions)
	satisfactionLevels.Initialize(dmp)
	generator := a.generator(params.RandomSeed)
	alternatives := limited_rationality.Spec_OrderAlternatives(params.RandomAlternativesOrdering, &dmp.ConsideredAlternatives, generator)
	weights := Spec_sortCriteria(dmp, params, generator)
	leftToChoice, result, resultIds, thresholdIndex := Spec_checkWithinSatisfactionLevels(weights, alternatives, satisfactionLevels)
	Spec_fillRemainingAlternatives(leftToChoice, thresholdIndex, result, resultIds)
	ranking := limited_rationality.Spec_PrepareSequentialRanking(result, resultIds)
	return &ranking
}

func Spec_sortCriteria(dmp *model.DecisionMakingParams, params AspectEliminationHeuristicParams, generator utils.ValueGenerator) model.WeightedCriteria {
	weights := *dmp.Criteria.Spec_ZipWithWeights(&params.Weights)
	sort.Slice(weights, func(i, j int) bool {
		w1, w2 := weights[i], weights[j]
		if w1.Weight != w2.Weight {
			return w1.Weight > w2.Weight
		}
		return generator() < 0.5
	})
	return weights
}

func Spec_checkWithinSatisfactionLevels(
	criteria model.WeightedCriteria,
	considered *[]model.AlternativeWithCriteria,
	satisfactionLevels satisfaction_levels.SatisfactionLevels,
) ([]model.AlternativeWithCriteria, model.AlternativeResults, []model.Alternative, int) {
	leftToChoice := *considered
	result := make(model.AlternativeResults, len(leftToChoice))
	resultIds := make([]model.Alternative, len(leftToChoice))
	resultInsertIndex := len(leftToChoice) - 1
	thresholdIndex := -1
	if len(leftToChoice) <= 1 {
		return leftToChoice, result, resultIds, thresholdIndex
	}
thresholds:
	for satisfactionLevels.HasNext() {
		thresholdIndex++
		t := satisfactionLevels.Next()
		for _, c := range criteria {
			tempAlternatives := *model.Spec_CopyAlternatives(&leftToChoice)
			for _, a := range leftToChoice {
				if Spec_isBellowThreshold(&a, &t, &c.Criterion) {
					tempAlternatives = model.Spec_RemoveAlternative(tempAlternatives, a)
					threshold := Spec_makeWeightPair(&t, &c.Criterion)
					resultInsertIndex = Spec_updateResult(result, resultInsertIndex, a, thresholdIndex, resultIds, &threshold)
				}
				if len(tempAlternatives) <= 1 {
					leftToChoice = tempAlternatives
					break thresholds
				}
			}
			leftToChoice = tempAlternatives
		}
	}
	return leftToChoice, result, resultIds, thresholdIndex
}

func Spec_makeWeightPair(weights *model.Weights, criterion *model.Criterion) model.Weights {
	res := make(model.Weights, 1)
	res[criterion.Id] = (*weights)[criterion.Id]
	return res
}

func Spec_isBellowThreshold(a *model.AlternativeWithCriteria, thresholds *model.Weights, criterion *model.Criterion) bool {
	return a.Spec_CriterionValue(criterion) < (*thresholds)[criterion.Id]*float64(criterion.Spec_Multiplier())
}

func Spec_updateResult(
	result model.AlternativeResults,
	resultInsertIndex int,
	alternative model.AlternativeWithCriteria,
	alternativeValue int,
	resultIds []model.Alternative,
	thresholds *model.Weights,
) int {
	result[resultInsertIndex] = model.AlternativeResult{
		Alternative: alternative,
		Evaluation: AspectEliminationEvaluation{
			ThresholdsIndex:       alternativeValue,
			NotSatisfiedThreshold: *thresholds,
		},
	}
	resultIds[resultInsertIndex] = alternative.Id
	return resultInsertIndex - 1
}

func Spec_fillRemainingAlternatives(
	leftToChoice []model.AlternativeWithCriteria,
	thresholdIndex int,
	result model.AlternativeResults,
	resultIds []model.Alternative,
) {
	if len(leftToChoice) > 0 {
		thresholdIndex += 1
		lowestThresholds := make(model.Weights, 0)
		for i, a := range leftToChoice {
			Spec_updateResult(result, i, a, thresholdIndex, resultIds, &lowestThresholds)
		}
	}
}
