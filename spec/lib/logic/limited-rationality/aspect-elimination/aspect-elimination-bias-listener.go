// Reference implementation (specification) for the RealDecisionMaker verification framework.
//
// This file is NOT part of the repository build. The analyzer (/verif/analyzer) loads it as an
// in-memory overlay next to the package it describes and compares, statically, the value graph of
// every Spec_X declaration with that of the repository's X (see DESIGN.md, engine E5). Each
// function states what the corresponding repository function has to compute according to
// /verif/properties.jsonl; it was reviewed against the property statements, not generated at
// check time, and it is never executed.

package aspect_elimination

import (
	"github.com/Azbesciak/RealDecisionMaker/lib/logic/limited-rationality/satisfaction-levels"
	"github.com/Azbesciak/RealDecisionMaker/lib/model"
	"github.com/Azbesciak/RealDecisionMaker/lib/utils"
)

func Spec_NewAspectEliminationBiasListener(
	satisfactionLevelsUpdateListeners satisfaction_levels.SatisfactionLevelsUpdateListeners,
) *AspectEliminationBiasListener {
	return &AspectEliminationBiasListener{
		satisfactionLevelsUpdateListeners: satisfactionLevelsUpdateListeners,
	}
}

func (a *AspectEliminationBiasListener) Spec_Identifier() string {
	return methodName
}

func (a *AspectEliminationBiasListener) Spec_OnCriterionAdded(
	criterion *model.Criterion,
	referenceCriterion *model.Criterion,
	params model.MethodParameters,
	generator utils.ValueGenerator,
) model.AddedCriterionParams {
	pParams := params.(AspectEliminationHeuristicParams)
	newValue := model.Spec_NewCriterionValue(&pParams.Weights, referenceCriterion, &generator)
	listener, methodParams := a.Spec_getMethodParams(pParams)
	addedParams := listener.OnCriterionAdded(criterion, referenceCriterion, methodParams, generator)
	return aspectEliminationAddedCriterion{
		Weights: model.Weights{criterion.Id: newValue},
		Params:  addedParams,
	}
}

func (a *AspectEliminationBiasListener) Spec_getMethodParams(pParams AspectEliminationHeuristicParams) (satisfaction_levels.SatisfactionLevelsUpdateListener, satisfaction_levels.SatisfactionLevels) {
	return a.satisfactionLevelsUpdateListeners.Spec_Get(pParams.Function, pParams.Params)
}

func (a *AspectEliminationBiasListener) Spec_OnCriteriaRemoved(
	leftCriteria *model.Criteria,
	params model.MethodParameters,
) model.MethodParameters {
	pParams := params.(AspectEliminationHeuristicParams)
	listener, methodParams := a.Spec_getMethodParams(pParams)
	afterRemoveParams := listener.OnCriteriaRemoved(leftCriteria, methodParams)
	return pParams.Spec_with(afterRemoveParams, pParams.Weights.Spec_PreserveOnly(leftCriteria))
}

func (a *AspectEliminationBiasListener) Spec_RankCriteriaAscending(params *model.DecisionMakingParams) *model.WeightedCriteria {
	wParams := params.MethodParameters.(AspectEliminationHeuristicParams)
	return params.Criteria.Spec_SortByWeights(wParams.Weights)
}

func (a *AspectEliminationBiasListener) Spec_Merge(params model.MethodParameters, addition model.MethodParameters) model.MethodParameters {
	pParams := params.(AspectEliminationHeuristicParams)
	aParams := addition.(aspectEliminationAddedCriterion)
	listener, methodParams := a.Spec_getMethodParams(pParams)
	return pParams.Spec_with(listener.Merge(methodParams, aParams.Params), pParams.Weights.Spec_Merge(&aParams.Weights))
}
