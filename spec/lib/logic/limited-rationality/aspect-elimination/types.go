// Reference declarations of the struct types of this package (fields, types and tags as the API documents them).
// Loaded by the analyzer as an in-memory overlay only; see DESIGN.md, engine E5 (rule E5-types).

package aspect_elimination

import (
	"github.com/Azbesciak/RealDecisionMaker/lib/logic/limited-rationality/satisfaction-levels"
	"github.com/Azbesciak/RealDecisionMaker/lib/model"
	"github.com/Azbesciak/RealDecisionMaker/lib/utils"
)

type Spec_AspectEliminationBiasListener struct {
	satisfactionLevelsUpdateListeners satisfaction_levels.SatisfactionLevelsUpdateListeners
}

type Spec_aspectEliminationAddedCriterion struct {
	Weights model.Weights `json:"weights"`
	Params  interface{}   `json:"params,omitempty"`
}

type Spec_AspectEliminationHeuristic struct {
	functions []satisfaction_levels.SatisfactionLevelsSource
	generator utils.SeededValueGenerator
}

type Spec_AspectEliminationEvaluation struct {
	NotSatisfiedThreshold model.Weights `json:"notSatisfiedThreshold"`
	ThresholdsIndex       int           `json:"thresholdsIndex"`
}

type Spec_AspectEliminationHeuristicParams struct {
	Function                   string        `json:"function"`
	Params                     interface{}   `json:"params"`
	RandomSeed                 int64         `json:"randomSeed"`
	Weights                    model.Weights `json:"weights"`
	RandomAlternativesOrdering bool          `json:"randomAlternativesOrdering"`
}
