// Reference declarations of the struct types of this package (fields, types and tags as the API documents them).
// Loaded by the analyzer as an in-memory overlay only; see DESIGN.md, engine E5 (rule E5-types).

package satisfaction

import (
	"github.com/Azbesciak/RealDecisionMaker/lib/logic/limited-rationality/satisfaction-levels"
	"github.com/Azbesciak/RealDecisionMaker/lib/model"
	"github.com/Azbesciak/RealDecisionMaker/lib/utils"
)

type Spec_SatisfactionBiasListener struct {
	satisfactionLevelsUpdateListeners satisfaction_levels.SatisfactionLevelsUpdateListeners
}

type Spec_satisfactionAddedCriterion struct {
	Params interface{} `json:"params,omitempty"`
}

type Spec_Satisfaction struct {
	generator utils.SeededValueGenerator
	functions []satisfaction_levels.SatisfactionLevelsSource
}

type Spec_SatisfactionParameters struct {
	Function                   string            `json:"function"`
	Params                     interface{}       `json:"params"`
	RandomSeed                 int64             `json:"randomSeed"`
	CurrentChoice              model.Alternative `json:"currentChoice"`
	RandomAlternativesOrdering bool              `json:"randomAlternativesOrdering"`
}

type Spec_SatisfactionEvaluation struct {
	SatisfiedThresholds model.Weights `json:"satisfiedThresholds"`
	ThresholdsIndex     int           `json:"thresholdsIndex"`
}
