// Reference implementation (specification) for the RealDecisionMaker verification framework.
//
// This file is NOT part of the repository build. The analyzer (/verif/analyzer) loads it as an
// in-memory overlay next to the package it describes and compares, statically, the value graph of
// every Spec_X declaration with that of the repository's X (see DESIGN.md, engine E5). Each
// function states what the corresponding repository function has to compute according to
// /verif/properties.jsonl; it was reviewed against the property statements, not generated at
// check time, and it is never executed.

package satisfaction

import (
	"github.com/Azbesciak/RealDecisionMaker/lib/logic/limited-rationality/satisfaction-levels"
	"github.com/Azbesciak/RealDecisionMaker/lib/model"
	"github.com/Azbesciak/RealDecisionMaker/lib/utils"
)

func Spec_NewSatisfactionBiasListener(
	satisfactionLevelsUpdateListeners satisfaction_levels.SatisfactionLevelsUpdateListeners,
) *SatisfactionBiasListener {
	return &SatisfactionBiasListener{satisfactionLevelsUpdateListeners: satisfactionLevelsUpdateListeners}
}

func (a *SatisfactionBiasListener) Spec_Identifier() string {
	return methodName
}

func (a *SatisfactionBiasListener) Spec_OnCriterionAdded(
	criterion *model.Criterion,
	referenceCriterion *model.Criterion,
	params model.MethodParameters,
	generator utils.ValueGenerator,
) model.AddedCriterionParams {
	pParams := params.(SatisfactionParameters)
	listener, methodParams := a.Spec_getMethodParams(pParams)
	addedParams := listener.OnCriterionAdded(criterion, referenceCriterion, methodParams, generator)
	return satisfactionAddedCriterion{addedParams}
}

func (a *SatisfactionBiasListener) Spec_getMethodParams(pParams SatisfactionParameters) (satisfaction_levels.SatisfactionLevelsUpdateListener, satisfaction_levels.SatisfactionLevels) {
	return a.satisfactionLevelsUpdateListeners.Spec_Get(pParams.Function, pParams.Params)
}

func (a *SatisfactionBiasListener) Spec_OnCriteriaRemoved(
	leftCriteria *model.Criteria,
	params model.MethodParameters,
) model.MethodParameters {
	pParams := params.(SatisfactionParameters)
	listener, methodParams := a.Spec_getMethodParams(pParams)
	afterRemoveParams := listener.OnCriteriaRemoved(leftCriteria, methodParams)
	return pParams.Spec_with(afterRemoveParams)
}

func (a *SatisfactionBiasListener) Spec_RankCriteriaAscending(params *model.DecisionMakingParams) *model.WeightedCriteria {
	weights := model.Spec_PrepareCumulatedWeightsMap(params, model.Spec_WeightIdentity)
	return params.Criteria.Spec_SortByWeights(*weights)
}

func (a *SatisfactionBiasListener) Spec_Merge(params model.MethodParameters, addition model.MethodParameters) model.MethodParameters {
	pParams := params.(SatisfactionParameters)
	aParams := addition.(satisfactionAddedCriterion)
	listener, methodParams := a.Spec_getMethodParams(pParams)
	return pParams.Spec_with(listener.Merge(methodParams, aParams.Params))
}
