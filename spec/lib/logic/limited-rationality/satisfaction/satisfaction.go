// Reference implementation (specification) for the RealDecisionMaker verification framework.
//
// This file is NOT part of the repository build. The analyzer (/verif/analyzer) loads it as an
// in-memory overlay next to the package it describes and compares, statically, the value graph of
// every Spec_X declaration with that of the repository's X (see DESIGN.md, engine E5). Each
// function states what the corresponding repository function has to compute according to
// /verif/properties.jsonl; it was reviewed against the property statements, not generated at
// check time, and it is never executed.

package satisfaction

import (
	"github.com/Azbesciak/RealDecisionMaker/lib/logic/limited-rationality"
	"github.com/Azbesciak/RealDecisionMaker/lib/logic/limited-rationality/satisfaction-levels"
	"github.com/Azbesciak/RealDecisionMaker/lib/model"
	"github.com/Azbesciak/RealDecisionMaker/lib/utils"
)

func Spec_NewSatisfaction(
	generator utils.SeededValueGenerator,
	functions []satisfaction_levels.SatisfactionLevelsSource,
) *Satisfaction {
	return &Satisfaction{generator: generator, functions: functions}
}

func (s *Satisfaction) Spec_Identifier() string {
	return methodName
}

func (s *SatisfactionParameters) Spec_with(params interface{}) SatisfactionParameters {
	return SatisfactionParameters{
		Function:                   s.Function,
		Params:                     params,
		RandomSeed:                 s.RandomSeed,
		CurrentChoice:              s.CurrentChoice,
		RandomAlternativesOrdering: s.RandomAlternativesOrdering,
	}
}

func (s *SatisfactionParameters) Spec_GetCurrentChoice() string {
	return s.CurrentChoice
}

func (s *SatisfactionParameters) Spec_GetRandomSeed() int64 {
	return s.RandomSeed
}

func (s *SatisfactionParameters) Spec_IsRandomAlternativesOrdering() bool {
	return s.RandomAlternativesOrdering
}

func (s *Satisfaction) Spec_MethodParameters() interface{} {
	return SatisfactionParameters{}
}

func (s *Satisfaction) Spec_ParseParams(dm *model.DecisionMaker) interface{} {
	var params SatisfactionParameters
	utils.Spec_DecodeToStruct(dm.MethodParameters, &params)
	// C20: thresholds / series parameters are validated against the declared criteria when the request is parsed
	satisfaction_levels.Spec_Find(params.Function, params.Params, s.functions).Initialize(&model.DecisionMakingParams{
		Criteria:                  dm.Criteria,
		NotConsideredAlternatives: dm.KnownAlternatives,
	})
	return params
}

func (s *Satisfaction) Spec_Evaluate(dmp *model.DecisionMakingParams) *model.AlternativesRanking {
	params := dmp.MethodParameters.(SatisfactionParameters)
	satisfactionLevels := satisfaction_levels.Spec_Find(params.Function, params.Params, s.functions)
	satisfactionLevels.Initialize(dmp)
	generator := s.generator(params.Spec_GetRandomSeed())
	current, considered := limited_rationality.Spec_GetAlternativesSearchOrder(dmp, &params, generator)
	leftToChoice, result, resultIds, resultInsertIndex, thresholdIndex := Spec_checkWithinSatisfactionLevels(dmp, current, considered, satisfactionLevels)
	Spec_fillRemainingAlternatives(leftToChoice, thresholdIndex, resultInsertIndex, result, resultIds, Spec_weightsSupplier(dmp))
	ranking := limited_rationality.Spec_PrepareSequentialRanking(result, resultIds)
	return &ranking
}

func Spec_weightsSupplier(dmp *model.DecisionMakingParams) func() model.Weights {
	return func() model.Weights {
		alternatives := dmp.Spec_AllAlternatives()
		weights := make(model.Weights, len(dmp.Criteria))
		for _, c := range dmp.Criteria {
			valRange := model.Spec_CriteriaValuesRange(&alternatives, &c)
			if c.Spec_IsGain() {
				weights[c.Id] = valRange.Min
			} else {
				weights[c.Id] = valRange.Max
			}
		}
		return weights
	}
}

func Spec_fillRemainingAlternatives(
	leftToChoice []model.AlternativeWithCriteria,
	thresholdIndex, resultInsertIndex int,
	result model.AlternativeResults,
	resultIds []model.Alternative,
	lowestThresholdSup func() model.Weights,
) {
	if len(leftToChoice) > 0 {
		thresholdIndex += 1
		lowestThresholds := lowestThresholdSup()
		for _, a := range leftToChoice {
			resultInsertIndex = Spec_updateResult(result, resultInsertIndex, a, thresholdIndex, resultIds, &lowestThresholds)
		}
	}
}

func Spec_checkWithinSatisfactionLevels(
	dmp *model.DecisionMakingParams,
	current model.AlternativeWithCriteria,
	considered []model.AlternativeWithCriteria,
	satisfactionLevels satisfaction_levels.SatisfactionLevels,
) ([]model.AlternativeWithCriteria, model.AlternativeResults, []model.Alternative, int, int) {
	leftToChoice := append([]model.AlternativeWithCriteria{current}, considered...)
	result := make(model.AlternativeResults, len(leftToChoice))
	resultIds := make([]model.Alternative, len(leftToChoice))
	resultInsertIndex := 0
	thresholdIndex := -1
	for satisfactionLevels.HasNext() {
		thresholdIndex++
		t := satisfactionLevels.Next()
		thresholds := dmp.Criteria.Spec_ZipWithWeights(&t)
		tempLeftToChoice := *model.Spec_CopyAlternatives(&leftToChoice)
		for _, a := range leftToChoice {
			if Spec_isGoodEnough(a, thresholds) {
				tempLeftToChoice = model.Spec_RemoveAlternative(tempLeftToChoice, a)
				resultInsertIndex = Spec_updateResult(result, resultInsertIndex, a, thresholdIndex, resultIds, &t)
			}
		}
		leftToChoice = tempLeftToChoice
		if len(leftToChoice) == 0 {
			break
		}
	}
	return leftToChoice, result, resultIds, resultInsertIndex, thresholdIndex
}

func Spec_updateResult(
	result model.AlternativeResults,
	resultInsertIndex int,
	alternative model.AlternativeWithCriteria,
	alternativeValue int,
	resultIds []model.Alternative,
	thresholds *model.Weights,
) int {
	result[resultInsertIndex] = model.AlternativeResult{
		Alternative: alternative,
		Evaluation: SatisfactionEvaluation{
			ThresholdsIndex:     alternativeValue,
			SatisfiedThresholds: *thresholds,
		},
	}
	resultIds[resultInsertIndex] = alternative.Id
	return resultInsertIndex + 1
}

func Spec_isGoodEnough(alternative model.AlternativeWithCriteria, thresholds *model.WeightedCriteria) bool {
	for _, v := range *thresholds {
		criterionValue := alternative.Spec_CriterionValue(&v.Criterion)
		threshold := float64(v.Spec_Multiplier()) * v.Weight
		if criterionValue < threshold {
			return false
		}
	}
	return true
}
