// Reference declarations of the struct types of this package (fields, types and tags as the API documents them).
// Loaded by the analyzer as an in-memory overlay only; see DESIGN.md, engine E5 (rule E5-types).

package majority

import (
	"github.com/Azbesciak/RealDecisionMaker/lib/model"
	"github.com/Azbesciak/RealDecisionMaker/lib/utils"
)

type Spec_DrawResolution struct {
	sameBuffer       []model.AlternativeResult
	worseThanCurrent [][]model.AlternativeResult
	current          model.AlternativeWithCriteria
}

type Spec_DrawAllowedResolver struct {
}

type Spec_CurrentIsWinnerDrawResolver struct {
}

type Spec_NewerIsWinnerResolver struct {
}

type Spec_RandomWinnerResolver struct {
	newer   NewerIsWinnerResolver
	current CurrentIsWinnerDrawResolver
}

type Spec_MajorityBiasListener struct {
}

type Spec_Majority struct {
	generator             utils.SeededValueGenerator
	drawResolvers         []DrawResolver
	currentWinnerResolver CurrentIsWinnerDrawResolver
	newerIsWinnerResolver NewerIsWinnerResolver
}

type Spec_MajorityHeuristicParams struct {
	Weights                    model.Weights     `json:"weights"`
	CurrentChoice              model.Alternative `json:"currentChoice"`
	RandomSeed                 int64             `json:"randomSeed"`
	RandomAlternativesOrdering bool              `json:"randomAlternativesOrdering"`
	DrawResolution             string            `json:"drawResolution"`
}

type Spec_MajorityEvaluation struct {
	Value                    float64           `json:"value"`
	ComparedWith             model.Alternative `json:"comparedWith"`
	ComparedAlternativeValue float64           `json:"comparedAlternativeValue"`
}
