// Reference implementation (specification) for the RealDecisionMaker verification framework.
//
// This file is NOT part of the repository build. The analyzer (/verif/analyzer) loads it as an
// in-memory overlay next to the package it describes and compares, statically, the value graph of
// every Spec_X declaration with that of the repository's X (see DESIGN.md, engine E5). Each
// function states what the corresponding repository function has to compute according to
// /verif/properties.jsonl; it was reviewed against the property statements, not generated at
// check time, and it is never executed.

package majority

import (
	"fmt"
	"github.com/Azbesciak/RealDecisionMaker/lib/logic/limited-rationality"
	"github.com/Azbesciak/RealDecisionMaker/lib/model"
	"github.com/Azbesciak/RealDecisionMaker/lib/utils"
)

func Spec_NewMajority(generator utils.SeededValueGenerator, drawResolvers []DrawResolver) *Majority {
	if len(drawResolvers) == 0 {
		panic("no draw resolvers for majority heuristic!")
	}
	return &Majority{
		generator:             generator,
		drawResolvers:         drawResolvers,
		newerIsWinnerResolver: NewerIsWinnerResolver{},
		currentWinnerResolver: CurrentIsWinnerDrawResolver{},
	}
}

func (m *MajorityHeuristicParams) Spec_GetCurrentChoice() string {
	return m.CurrentChoice
}

func (m *MajorityHeuristicParams) Spec_GetRandomSeed() int64 {
	return m.RandomSeed
}

func (m *MajorityHeuristicParams) Spec_IsRandomAlternativesOrdering() bool {
	return m.RandomAlternativesOrdering
}

func (m *Majority) Spec_Identifier() string {
	return methodName
}

func (m *Majority) Spec_MethodParameters() interface{} {
	return MajorityHeuristicParams{}
}

func (m *Majority) Spec_drawResolver(params *MajorityHeuristicParams) DrawResolver {
	if len(params.DrawResolution) == 0 {
		return m.drawResolvers[0]
	}
	for _, r := range m.drawResolvers {
		if r.Identifier() == params.DrawResolution {
			return r
		}
	}
	names := make([]string, len(m.drawResolvers))
	for i, r := range m.drawResolvers {
		names[i] = r.Identifier()
	}
	panic(fmt.Errorf("draw resolution '%s' not found in %v", params.DrawResolution, names))
}

func (m *Majority) Spec_Evaluate(dm *model.DecisionMakingParams) *model.AlternativesRanking {
	params := dm.MethodParameters.(MajorityHeuristicParams)
	criteriaWithWeights := dm.Criteria.Spec_ZipWithWeights(&params.Weights)
	generator := m.generator(params.RandomSeed)
	current, considered := limited_rationality.Spec_GetAlternativesSearchOrder(dm, &params, generator)
	var sameBuffer []model.AlternativeResult
	var worseThanCurrent [][]model.AlternativeResult
	var currentEvaluation model.Weight = 0
	drawResolver := m.Spec_drawResolver(&params)
	for _, another := range considered {
		s1, s2 := Spec_compare(criteriaWithWeights, &current, &another)
		worseThanCurrent, sameBuffer, current, currentEvaluation =
			m.Spec_takeBetter(s1, s2, sameBuffer, another, current, worseThanCurrent, drawResolver, generator)
	}
	sameBuffer = append(sameBuffer, model.AlternativeResult{
		Alternative: current,
		Evaluation: MajorityEvaluation{
			Value: currentEvaluation,
		},
	})
	worseThanCurrent = append(worseThanCurrent, sameBuffer)
	return Spec_prepareRanking(worseThanCurrent)
}

func Spec_prepareRanking(ranking [][]model.AlternativeResult) *model.AlternativesRanking {
	worseOneLevelThanCurrent := make([]string, 0)
	var result = make(model.AlternativesRanking, 0)
	for _, equivalentEntries := range ranking {
		var sameAlternativesId []string
		for i, r := range equivalentEntries {
			var thisAlternativeWorse = make([]string, len(worseOneLevelThanCurrent), len(worseOneLevelThanCurrent)+len(equivalentEntries))
			copy(thisAlternativeWorse, worseOneLevelThanCurrent)
			sameAlternativesId = append(sameAlternativesId, r.Alternative.Id)
			for j, a := range equivalentEntries {
				if i != j {
					thisAlternativeWorse = append(thisAlternativeWorse, a.Alternative.Id)
				}
			}
			result = append(result, model.AlternativesRankEntry{
				AlternativeResult:  r,
				BetterThanOrSameAs: thisAlternativeWorse,
			})
		}
		worseOneLevelThanCurrent = sameAlternativesId
	}
	result.Spec_ReverseOrder()
	return &result
}

func (m *Majority) Spec_takeBetter(s1, s2 model.Weight, sameBuffer []model.AlternativeResult,
	another, current model.AlternativeWithCriteria,
	worseThanCurrent [][]model.AlternativeResult,
	resolver DrawResolver,
	generator utils.ValueGenerator,
) ([][]model.AlternativeResult, []model.AlternativeResult, model.AlternativeWithCriteria, model.Weight) {
	currentEvaluation := s1
	if utils.Spec_FloatsAreEqual(s1, s2, eps) {
		resolution := resolver.Resolve(s1, s2, sameBuffer, worseThanCurrent, current, another, generator)
		current = resolution.current
		worseThanCurrent = resolution.worseThanCurrent
		sameBuffer = resolution.sameBuffer
	} else if s2 < s1 {
		worseThanCurrent = m.currentWinnerResolver.Spec_Resolve(
			s1, s2, sameBuffer, worseThanCurrent, current, another, generator,
		).worseThanCurrent
	} else {
		currentEvaluation = s2
		resolution := m.newerIsWinnerResolver.Spec_Resolve(
			s1, s2, sameBuffer, worseThanCurrent, current, another, generator,
		)
		current = resolution.current
		worseThanCurrent = resolution.worseThanCurrent
		sameBuffer = resolution.sameBuffer
	}
	return worseThanCurrent, sameBuffer, current, currentEvaluation
}

func Spec_compare(criteriaWithWeights *model.WeightedCriteria, a1, a2 *model.AlternativeWithCriteria) (model.Weight, model.Weight) {
	a1Score := 0.0
	a2Score := 0.0
	for _, criterion := range *criteriaWithWeights {
		v1 := a1.Spec_CriterionValue(&criterion.Criterion)
		v2 := a2.Spec_CriterionValue(&criterion.Criterion)
		if utils.Spec_FloatsAreEqual(v1, v2, eps) {
			continue
		} else if v1 > v2 {
			a1Score += criterion.Weight
		} else {
			a2Score += criterion.Weight
		}
	}
	return a1Score, a2Score
}

func (m *Majority) Spec_ParseParams(dm *model.DecisionMaker) interface{} {
	var params MajorityHeuristicParams
	utils.Spec_DecodeToStruct(dm.MethodParameters, &params)
	// C20: a missing weight of a declared criterion is rejected when the request is parsed, not after the biases
	dm.Criteria.Spec_ZipWithWeights(&params.Weights)
	return params
}
