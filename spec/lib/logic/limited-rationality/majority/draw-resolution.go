// Reference implementation (specification) for the RealDecisionMaker verification framework.
//
// This file is NOT part of the repository build. The analyzer (/verif/analyzer) loads it as an
// in-memory overlay next to the package it describes and compares, statically, the value graph of
// every Spec_X declaration with that of the repository's X (see DESIGN.md, engine E5). Each
// function states what the corresponding repository function has to compute according to
// /verif/properties.jsonl; it was reviewed against the property statements, not generated at
// check time, and it is never executed.

package majority

import (
	"github.com/Azbesciak/RealDecisionMaker/lib/model"
	"github.com/Azbesciak/RealDecisionMaker/lib/utils"
)

func (d *DrawAllowedResolver) Spec_Identifier() string {
	return DrawAllowedResolverName
}

func (d *DrawAllowedResolver) Spec_Resolve(
	currentEval, newEval model.Weight,
	sameBuffer []model.AlternativeResult,
	worseThanCurrent [][]model.AlternativeResult,
	current, another model.AlternativeWithCriteria,
	_ utils.ValueGenerator,
) *DrawResolution {
	sameBuffer = append(sameBuffer, model.AlternativeResult{
		Alternative: another,
		Evaluation: MajorityEvaluation{
			Value:                    newEval,
			ComparedWith:             current.Id,
			ComparedAlternativeValue: currentEval,
		},
	})
	return &DrawResolution{
		sameBuffer:       sameBuffer,
		worseThanCurrent: worseThanCurrent,
		current:          current,
	}
}

func (d *CurrentIsWinnerDrawResolver) Spec_Identifier() string {
	return CurrentIsWinnerResolverName
}

func (d *CurrentIsWinnerDrawResolver) Spec_Resolve(
	currentEval, newEval model.Weight,
	sameBuffer []model.AlternativeResult,
	worseThanCurrent [][]model.AlternativeResult,
	current, another model.AlternativeWithCriteria,
	_ utils.ValueGenerator,
) *DrawResolution {
	worseThanCurrent = append(worseThanCurrent, []model.AlternativeResult{{
		Alternative: another,
		Evaluation: MajorityEvaluation{
			Value:                    newEval,
			ComparedWith:             current.Id,
			ComparedAlternativeValue: currentEval,
		},
	}})
	return &DrawResolution{
		sameBuffer:       sameBuffer,
		worseThanCurrent: worseThanCurrent,
		current:          current,
	}
}

func (d *NewerIsWinnerResolver) Spec_Identifier() string {
	return NewerIsWinnerResolverName
}

func (d *NewerIsWinnerResolver) Spec_Resolve(
	currentEval, newEval model.Weight,
	sameBuffer []model.AlternativeResult,
	worseThanCurrent [][]model.AlternativeResult,
	current, another model.AlternativeWithCriteria,
	_ utils.ValueGenerator,
) *DrawResolution {
	sameBuffer = append(sameBuffer, model.AlternativeResult{
		Alternative: current,
		Evaluation: MajorityEvaluation{
			Value:                    currentEval,
			ComparedWith:             another.Id,
			ComparedAlternativeValue: newEval,
		},
	})
	current = another
	worseThanCurrent = append(worseThanCurrent, sameBuffer)
	sameBuffer = make([]model.AlternativeResult, 0)
	return &DrawResolution{
		sameBuffer:       sameBuffer,
		worseThanCurrent: worseThanCurrent,
		current:          current,
	}
}

func (d *RandomWinnerResolver) Spec_Identifier() string {
	return RandomIsWinnerResolverName
}

func (d *RandomWinnerResolver) Spec_Resolve(
	currentEval, newEval model.Weight,
	sameBuffer []model.AlternativeResult,
	worseThanCurrent [][]model.AlternativeResult,
	current, another model.AlternativeWithCriteria,
	generator utils.ValueGenerator,
) *DrawResolution {
	if generator() < 0.5 {
		return d.current.Spec_Resolve(currentEval, newEval, sameBuffer, worseThanCurrent, current, another, generator)
	} else {
		return d.newer.Spec_Resolve(currentEval, newEval, sameBuffer, worseThanCurrent, current, another, generator)
	}
}
