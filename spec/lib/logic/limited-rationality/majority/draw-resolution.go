package majority

import (
	"github.com/Azbesciak/RealDecisionMaker/lib/model"
	"github.com/Azbesciak/RealDecisionMaker/lib/utils"
)

func (d *DrawAllowedResolver) Spec_Identifier() string {
	return DrawAllowedResolverName
}

func (d *DrawAllowedResolver) Spec_Resolve(
	currentEval, newEval model.Weight,
	sameBuffer []model.AlternativeResult,
	worseThanCurrent [][]model.AlternativeResult,
	current, another model.AlternativeWithCriteria,
	_ utils.ValueGenerator,
) *DrawResolution {
	sameBuffer = append(sameBuffer, model.AlternativeResult{
		Alternative: another,
		Evaluation: MajorityEvaluation{
			Value:                    newEval,
			ComparedWith:             current.Id,
			ComparedAlternativeValue: currentEval,
		},
	})
	return &DrawResolution{
		sameBuffer:       sameBuffer,
		worseThanCurrent: worseThanCurrent,
		current:          current,
	}
}

func (d *CurrentIsWinnerDrawResolver) Spec_Identifier() string {
	return CurrentIsWinnerResolverName
}

func (d *CurrentIsWinnerDrawResolver) Spec_Resolve(
	currentEval, newEval model.Weight,
	sameBuffer []model.AlternativeResult,
	worseThanCurrent [][]model.AlternativeResult,
	current, another model.AlternativeWithCriteria,
	_ utils.ValueGenerator,
) *DrawResolution {
	worseThanCurrent = append(worseThanCurrent, []model.AlternativeResult{{
		Alternative: another,
		Evaluation: MajorityEvaluation{
			Value:                    newEval,
			ComparedWith:             current.Id,
			ComparedAlternativeValue: currentEval,
		},
	}})
	return &DrawResolution{
		sameBuffer:       sameBuffer,
		worseThanCurrent: worseThanCurrent,
		current:          current,
	}
}

func (d *NewerIsWinnerResolver) Spec_Identifier() string {
	return NewerIsWinnerResolverName
}

func (d *NewerIsWinnerResolver) Spec_Resolve(
	currentEval, newEval model.Weight,
	sameBuffer []model.AlternativeResult,
	worseThanCurrent [][]model.AlternativeResult,
	current, another model.AlternativeWithCriteria,
	_ utils.ValueGenerator,
) *DrawResolution {
	sameBuffer = append(sameBuffer, model.AlternativeResult{
		Alternative: current,
		Evaluation: MajorityEvaluation{
			Value:                    currentEval,
			ComparedWith:             another.Id,
			ComparedAlternativeValue: newEval,
		},
	})
	current = another
	worseThanCurrent = append(worseThanCurrent, sameBuffer)
	sameBuffer = make([]model.AlternativeResult, 0)
	return &DrawResolution{
		sameBuffer:       sameBuffer,
		worseThanCurrent: worseThanCurrent,
		current:          current,
	}
}

func (d *RandomWinnerResolver) Spec_Identifier() string {
	return RandomIsWinnerResolverName
}

func (d *RandomWinnerResolver) Spec_Resolve(
	currentEval, newEval model.Weight,
	sameBuffer []model.AlternativeResult,
	worseThanCurrent [][]model.AlternativeResult,
	current, another model.AlternativeWithCriteria,
	generator utils.ValueGenerator,
) *DrawResolution {
	if generator() < 0.5 {
		return d.current.Resolve(currentEval, newEval, sameBuffer, worseThanCurrent, current, another, generator)
	} else {
		return d.newer.Resolve(currentEval, newEval, sameBuffer, worseThanCurrent, current, another, generator)
	}
}
