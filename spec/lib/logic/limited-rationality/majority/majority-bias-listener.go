// Reference implementation (specification) for the RealDecisionMaker verification framework.
//
// This file is NOT part of the repository build. The analyzer (/verif/analyzer) loads it as an
// in-memory overlay next to the package it describes and compares, statically, the value graph of
// every Spec_X declaration with that of the repository's X (see DESIGN.md, engine E5). Each
// function states what the corresponding repository function has to compute according to
// /verif/properties.jsonl; it was reviewed against the property statements, not generated at
// check time, and it is never executed.

package majority

import (
	"github.com/Azbesciak/RealDecisionMaker/lib/model"
	"github.com/Azbesciak/RealDecisionMaker/lib/utils"
)

func (m *MajorityBiasListener) Spec_Identifier() string {
	return methodName
}

func (m *MajorityBiasListener) Spec_OnCriterionAdded(
	criterion *model.Criterion,
	referenceCriterion *model.Criterion,
	params model.MethodParameters,
	generator utils.ValueGenerator,
) model.AddedCriterionParams {
	wParams := params.(MajorityHeuristicParams)
	newWeight := model.Spec_NewCriterionValue(&wParams.Weights, referenceCriterion, &generator)
	return model.Spec_SingleWeight(criterion, newWeight)
}

func (m *MajorityBiasListener) Spec_OnCriteriaRemoved(leftCriteria *model.Criteria, params model.MethodParameters) model.MethodParameters {
	wParams := params.(MajorityHeuristicParams)
	leftWeights := wParams.Weights.Spec_PreserveOnly(leftCriteria)
	return MajorityHeuristicParams{
		Weights:                    *leftWeights,
		CurrentChoice:              wParams.CurrentChoice,
		RandomSeed:                 wParams.RandomSeed,
		RandomAlternativesOrdering: wParams.RandomAlternativesOrdering,
		DrawResolution:             wParams.DrawResolution,
	}
}

func (m *MajorityBiasListener) Spec_RankCriteriaAscending(params *model.DecisionMakingParams) *model.WeightedCriteria {
	wParams := params.MethodParameters.(MajorityHeuristicParams)
	return params.Criteria.Spec_SortByWeights(wParams.Weights)
}

func (m *MajorityBiasListener) Spec_Merge(params model.MethodParameters, addition model.MethodParameters) model.MethodParameters {
	oldParams := params.(MajorityHeuristicParams)
	newParams := addition.(model.WeightType)
	return MajorityHeuristicParams{
		Weights:                    *oldParams.Weights.Spec_Merge(&newParams.Weights),
		CurrentChoice:              oldParams.CurrentChoice,
		RandomSeed:                 oldParams.RandomSeed,
		RandomAlternativesOrdering: oldParams.RandomAlternativesOrdering,
		DrawResolution:             oldParams.DrawResolution,
	}
}
