// Reference implementation (specification) for the RealDecisionMaker verification framework.
//
// This file is NOT part of the repository build. The analyzer (/verif/analyzer) loads it as an
// in-memory overlay next to the package it describes and compares, statically, the value graph of
// every Spec_X declaration with that of the repository's X (see DESIGN.md, engine E5). Each
// function states what the corresponding repository function has to compute according to
// /verif/properties.jsonl; it was reviewed against the property statements, not generated at
// check time, and it is never executed.

package limited_rationality

import (
	"github.com/Azbesciak/RealDecisionMaker/lib/model"
	"github.com/Azbesciak/RealDecisionMaker/lib/utils"
)

func Spec_GetAlternativesSearchOrder(
	dm *model.DecisionMakingParams,
	params HeuristicParams,
	generator utils.ValueGenerator,
) (model.AlternativeWithCriteria, []model.AlternativeWithCriteria) {
	if len(params.GetCurrentChoice()) > 0 {
		allAlternatives := dm.Spec_AllAlternatives()
		choice := model.Spec_FetchAlternative(&allAlternatives, params.GetCurrentChoice())
		leftAlternatives := model.Spec_RemoveAlternative(*model.Spec_CopyAlternatives(&dm.ConsideredAlternatives), choice)
		otherAlternatives := Spec_OrderAlternatives(params.IsRandomAlternativesOrdering(), &leftAlternatives, generator)
		return choice, *otherAlternatives
	} else {
		alternatives := *Spec_OrderAlternatives(params.IsRandomAlternativesOrdering(), &dm.ConsideredAlternatives, generator)
		return alternatives[0], alternatives[1:]
	}
}

func Spec_OrderAlternatives(isRandomOrder bool, alternatives *[]model.AlternativeWithCriteria, generator utils.ValueGenerator) *[]model.AlternativeWithCriteria {
	if isRandomOrder {
		return model.Spec_ShuffleAlternatives(alternatives, generator)
	} else {
		return model.Spec_CopyAlternatives(alternatives)
	}
}

func Spec_PrepareSequentialRanking(result model.AlternativeResults, resultIds []model.Alternative) model.AlternativesRanking {
	resultsCount := len(result)
	ranking := make(model.AlternativesRanking, resultsCount)
	for i, r := range result {
		lastIndex := i + 2
		if lastIndex > resultsCount {
			lastIndex = resultsCount
		}
		ranking[i] = model.AlternativesRankEntry{
			AlternativeResult:  r,
			BetterThanOrSameAs: resultIds[i+1 : lastIndex],
		}
	}
	return ranking
}
