// Reference implementation (specification) for the RealDecisionMaker verification framework.
//
// This file is NOT part of the repository build. The analyzer (/verif/analyzer) loads it as an
// in-memory overlay next to the package it describes and compares, statically, the value graph of
// every Spec_X declaration with that of the repository's X (see DESIGN.md, engine E5). Each
// function states what the corresponding repository function has to compute according to
// /verif/properties.jsonl; it was reviewed against the property statements, not generated at
// check time, and it is never executed.

package satisfaction_levels

import (
	"fmt"
	"math"
)

func (i *IncreasingCoefficientManager) Spec_Validate(params *IdealCoefficientSatisfactionLevels) {
	if params.Coefficient <= 0 || params.Coefficient >= 1 {
		panic(fmt.Errorf("satisfaction coefficient increasing level must be in range (0, 1), got %f", params.Coefficient))
	}
	if params.MinValue < 0 || params.MinValue > 1 {
		panic(fmt.Errorf("min satisfaction coefficient level must be in range [0, 1], got %f", params.MinValue))
	}
	if params.MaxValue < 0 || params.MaxValue > 1 {
		panic(fmt.Errorf("max satisfaction coefficient level must be in range [0, 1], got %f", params.MaxValue))
	}
}

func (i *IncreasingCoefficientManager) Spec_UpdateValue(current, coefficient float64) float64 {
	return i.updateCoefficient(current, coefficient)
}

func (i *IncreasingCoefficientManager) Spec_InitialValue(params *IdealCoefficientSatisfactionLevels) float64 {
	return params.MinValue
}

func (i *IncreasingCoefficientManager) Spec_HasNext(params *IdealCoefficientSatisfactionLevels) bool {
	return params.currentValue < params.MaxValue
}

var Spec_IdealIncreasingMulCoefficientSatisfaction = IdealCoefficientSatisfactionLevelsSource{
	id: IdealIncreasingMul,
	coefficientManager: &IncreasingCoefficientManager{
		updateCoefficient: func(current, coefficient float64) float64 {
			return math.Min((1+current)*(1+coefficient)-1, 1)
		},
	},
}

var Spec_IdealAdditiveCoefficientSatisfaction = IdealCoefficientSatisfactionLevelsSource{
	id: IdealAdditive,
	coefficientManager: &IncreasingCoefficientManager{
		updateCoefficient: func(current, coefficient float64) float64 {
			return math.Min(current+coefficient, 1)
		},
	},
}
