package satisfaction_levels

import (
	"fmt"
	"github.com/Azbesciak/RealDecisionMaker/lib/utils"
)

func Spec_Find(function string, params interface{}, functions []SatisfactionLevelsSource) SatisfactionLevels {
	if len(function) == 0 {
		panic(fmt.Errorf("satisfaction thresholds function not provided"))
	}
	for _, f := range functions {
		if f.Identifier() == function {
			functionParams := f.BlankParams()
			utils.DecodeToStruct(params, functionParams)
			return functionParams
		}
	}
	names := make([]string, len(functions))
	for i, f := range functions {
		names[i] = f.Identifier()
	}
	panic(fmt.Errorf("satisfaction thresholds function '%s' not found in functions %v", function, names))
}
