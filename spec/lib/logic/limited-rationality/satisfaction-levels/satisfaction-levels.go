// Reference implementation (specification) for the RealDecisionMaker verification framework.
//
// This file is NOT part of the repository build. The analyzer (/verif/analyzer) loads it as an
// in-memory overlay next to the package it describes and compares, statically, the value graph of
// every Spec_X declaration with that of the repository's X (see DESIGN.md, engine E5). Each
// function states what the corresponding repository function has to compute according to
// /verif/properties.jsonl; it was reviewed against the property statements, not generated at
// check time, and it is never executed.

package satisfaction_levels

import (
	"fmt"
	"github.com/Azbesciak/RealDecisionMaker/lib/utils"
)

func Spec_Find(function string, params interface{}, functions []SatisfactionLevelsSource) SatisfactionLevels {
	if len(function) == 0 {
		panic(fmt.Errorf("satisfaction thresholds function not provided"))
	}
	for _, f := range functions {
		if f.Identifier() == function {
			functionParams := f.BlankParams()
			utils.Spec_DecodeToStruct(params, functionParams)
			return functionParams
		}
	}
	names := make([]string, len(functions))
	for i, f := range functions {
		names[i] = f.Identifier()
	}
	panic(fmt.Errorf("satisfaction thresholds function '%s' not found in functions %v", function, names))
}
