// Reference implementation (specification) for the RealDecisionMaker verification framework.
//
// This file is NOT part of the repository build. The analyzer (/verif/analyzer) loads it as an
// in-memory overlay next to the package it describes and compares, statically, the value graph of
// every Spec_X declaration with that of the repository's X (see DESIGN.md, engine E5). Each
// function states what the corresponding repository function has to compute according to
// /verif/properties.jsonl; it was reviewed against the property statements, not generated at
// check time, and it is never executed.

package satisfaction_levels

import (
	"math"
	"github.com/Azbesciak/RealDecisionMaker/lib/model"
	"github.com/Azbesciak/RealDecisionMaker/lib/utils"
)

func (s *IdealCoefficientSatisfactionLevels) Spec_Initialize(dmp *model.DecisionMakingParams) {
	s.manager.Validate(s)
	s.criteria = dmp.Criteria
	s.criteriaValuesRanges = make([]utils.ValueRange, len(dmp.Criteria))
	alternatives := dmp.Spec_AllAlternatives()
	for i, c := range s.criteria {
		s.criteriaValuesRanges[i] = *model.Spec_CriteriaValuesRange(&alternatives, &c)
	}
	s.currentValue = s.manager.InitialValue(s)
}

func (s *IdealCoefficientSatisfactionLevels) Spec_HasNext() bool {
	// C14/C20: the series is finite - it also ends when a step is too small to change the level
	return !s.exhausted && s.manager.HasNext(s)
}

func (s *IdealCoefficientSatisfactionLevels) Spec_Next() model.Weights {
	weights := make(model.Weights, len(s.criteria))
	for i, c := range s.criteria {
		valRange := s.criteriaValuesRanges[i]
		delta := valRange.Spec_Diff() * s.currentValue
		// C14: min + r x range for gain, max - r x range for cost, never outside [min, max] (rounding at r = 1)
		if c.Spec_Multiplier() > 0 {
			weights[c.Id] = math.Min(valRange.Min+delta, valRange.Max)
		} else {
			weights[c.Id] = math.Max(valRange.Max-delta, valRange.Min)
		}
	}
	following := s.manager.UpdateValue(s.currentValue, s.Coefficient)
	s.exhausted = following == s.currentValue
	s.currentValue = following
	return weights
}

func (s *IdealCoefficientSatisfactionLevelsSource) Spec_OnCriterionAdded(criterion *model.Criterion, referenceCriterion *model.Criterion, params SatisfactionLevels, generator utils.ValueGenerator) ParamsAddition {
	return nil
}

func (s *IdealCoefficientSatisfactionLevelsSource) Spec_OnCriteriaRemoved(leftCriteria *model.Criteria, params SatisfactionLevels) SatisfactionLevels {
	return params
}

func (s *IdealCoefficientSatisfactionLevelsSource) Spec_Merge(params SatisfactionLevels, addition ParamsAddition) SatisfactionLevels {
	return params
}

func (s *IdealCoefficientSatisfactionLevelsSource) Spec_Identifier() string {
	return s.id
}

func (s *IdealCoefficientSatisfactionLevelsSource) Spec_BlankParams() SatisfactionLevels {
	return &IdealCoefficientSatisfactionLevels{
		manager: s.coefficientManager,
	}
}
