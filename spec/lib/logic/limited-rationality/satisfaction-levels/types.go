// Reference declarations of the struct types of this package (fields, types and tags as the API documents them).
// Loaded by the analyzer as an in-memory overlay only; see DESIGN.md, engine E5 (rule E5-types).

package satisfaction_levels

import (
	"github.com/Azbesciak/RealDecisionMaker/lib/model"
	"github.com/Azbesciak/RealDecisionMaker/lib/utils"
)

type Spec_DecreasingCoefficientManager struct {
	updateCoefficient func(current, coefficient float64) float64
}

type Spec_IdealCoefficientSatisfactionLevels struct {
	Coefficient          float64 `json:"coefficient"`
	MaxValue             float64 `json:"maxValue"`
	MinValue             float64 `json:"minValue"`
	currentValue         float64
	criteria             model.Criteria
	criteriaValuesRanges []utils.ValueRange
	manager              CoefficientManager
}

type Spec_IdealCoefficientSatisfactionLevelsSource struct {
	id                 string
	coefficientManager CoefficientManager
}

type Spec_IncreasingCoefficientManager struct {
	updateCoefficient func(current, coefficient float64) float64
}

type Spec_SatisfactionLevelsUpdateListeners struct {
	Listeners ListenersMap
}

type Spec_ThresholdSatisfactionLevels struct {
	Thresholds   []model.Weights `json:"thresholds"`
	currentIndex int
}

type Spec_ThresholdSatisfactionLevelsSource struct {
	ascending bool
}

type Spec_ThresholdsUpdate struct {
	Thresholds []model.Weights `json:"thresholds"`
}
