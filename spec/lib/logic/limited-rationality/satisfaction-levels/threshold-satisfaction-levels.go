// Reference implementation (specification) for the RealDecisionMaker verification framework.
//
// This file is NOT part of the repository build. The analyzer (/verif/analyzer) loads it as an
// in-memory overlay next to the package it describes and compares, statically, the value graph of
// every Spec_X declaration with that of the repository's X (see DESIGN.md, engine E5). Each
// function states what the corresponding repository function has to compute according to
// /verif/properties.jsonl; it was reviewed against the property statements, not generated at
// check time, and it is never executed.

package satisfaction_levels

import (
	"fmt"
	"github.com/Azbesciak/RealDecisionMaker/lib/model"
	"github.com/Azbesciak/RealDecisionMaker/lib/utils"
	"sort"
)

func (t *ThresholdSatisfactionLevels) Spec_Initialize(dmp *model.DecisionMakingParams) {
	t.currentIndex = -1
	for i, threshold := range t.Thresholds {
		for _, c := range dmp.Criteria {
			if _, ok := threshold[c.Id]; !ok {
				panic(fmt.Errorf("value of criterion '%s' for threshold %d not found in %v", c.Id, i, threshold.Spec_AsKeyValue()))
			}
		}
	}
}

func (t *ThresholdSatisfactionLevels) Spec_HasNext() bool {
	return t.currentIndex+1 < len(t.Thresholds)
}

func (t *ThresholdSatisfactionLevels) Spec_Next() model.Weights {
	t.currentIndex += 1
	return t.Thresholds[t.currentIndex]
}

func (t *ThresholdSatisfactionLevelsSource) Spec_OnCriterionAdded(
	criterion *model.Criterion,
	referenceCriterion *model.Criterion,
	params SatisfactionLevels,
	generator utils.ValueGenerator,
) ParamsAddition {
	pParams := Spec_fetchParams(params)
	thresholdsValues := Spec_assignNewThresholds(pParams, referenceCriterion, generator)
	Spec_sortThresholds(thresholdsValues, t.ascending)
	thresholds := Spec_mapThresholdsToEntries(criterion, thresholdsValues)
	return ThresholdsUpdate{Thresholds: thresholds}
}

func Spec_mapThresholdsToEntries(criterion *model.Criterion, thresholdsValues []model.Weight) []model.Weights {
	thresholds := make([]model.Weights, len(thresholdsValues))
	for i, threshold := range thresholdsValues {
		thresholds[i] = model.Weights{criterion.Id: threshold}
	}
	return thresholds
}

func Spec_assignNewThresholds(params *ThresholdSatisfactionLevels, referenceCriterion *model.Criterion, generator utils.ValueGenerator) []model.Weight {
	thresholds := make([]model.Weight, len(params.Thresholds))
	for i, threshold := range params.Thresholds {
		thresholds[i] = threshold.Spec_Fetch(referenceCriterion.Id) * generator()
	}
	return thresholds
}

func Spec_sortThresholds(thresholds []model.Weight, ascending bool) {
	sort.Slice(thresholds, func(i, j int) bool {
		less := thresholds[i] < thresholds[j]
		if ascending {
			return less
		} else {
			return !less
		}
	})
}

func (t *ThresholdSatisfactionLevelsSource) Spec_OnCriteriaRemoved(leftCriteria *model.Criteria, params SatisfactionLevels) SatisfactionLevels {
	pParams := Spec_fetchParams(params)
	thresholds := pParams.Spec_preserveLeftThresholds(leftCriteria)
	return &ThresholdSatisfactionLevels{
		Thresholds:   thresholds,
		currentIndex: pParams.currentIndex,
	}
}

func (t *ThresholdSatisfactionLevels) Spec_preserveLeftThresholds(leftCriteria *model.Criteria) []model.Weights {
	thresholds := make([]model.Weights, len(t.Thresholds))
	for i, threshold := range t.Thresholds {
		thresholds[i] = *threshold.Spec_PreserveOnly(leftCriteria)
	}
	return thresholds
}

func (t *ThresholdSatisfactionLevelsSource) Spec_Merge(params SatisfactionLevels, addition ParamsAddition) SatisfactionLevels {
	pParams := Spec_fetchParams(params)
	add := addition.(ThresholdsUpdate)
	newThresholds := pParams.Spec_merge(add)
	return &ThresholdSatisfactionLevels{
		Thresholds:   newThresholds,
		currentIndex: pParams.currentIndex,
	}
}

func (t *ThresholdSatisfactionLevels) Spec_merge(add ThresholdsUpdate) []model.Weights {
	newThresholds := make([]model.Weights, len(t.Thresholds))
	for i, thresholds := range t.Thresholds {
		newThresholds[i] = *thresholds.Spec_Merge(&add.Thresholds[i])
	}
	return newThresholds
}

func Spec_fetchParams(params SatisfactionLevels) *ThresholdSatisfactionLevels {
	if p, ok := params.(*ThresholdSatisfactionLevels); !ok {
		panic(fmt.Errorf("threshold params shold be instance of ThresholdSatisfactionLevels"))
	} else {
		return p
	}
}

func (t *ThresholdSatisfactionLevelsSource) Spec_Identifier() string {
	return Thresholds
}

func (t *ThresholdSatisfactionLevelsSource) Spec_BlankParams() SatisfactionLevels {
	return &ThresholdSatisfactionLevels{}
}

var Spec_IncreasingThresholds = ThresholdSatisfactionLevelsSource{
	ascending: true,
}

var Spec_DecreasingThresholds = ThresholdSatisfactionLevelsSource{
	ascending: false,
}
