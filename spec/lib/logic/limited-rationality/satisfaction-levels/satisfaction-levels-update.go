// Reference implementation (specification) for the RealDecisionMaker verification framework.
//
// This file is NOT part of the repository build. The analyzer (/verif/analyzer) loads it as an
// in-memory overlay next to the package it describes and compares, statically, the value graph of
// every Spec_X declaration with that of the repository's X (see DESIGN.md, engine E5). Each
// function states what the corresponding repository function has to compute according to
// /verif/properties.jsonl; it was reviewed against the property statements, not generated at
// check time, and it is never executed.

package satisfaction_levels

import (
	"fmt"
	"github.com/Azbesciak/RealDecisionMaker/lib/utils"
	"sort"
)

func (sl *SatisfactionLevelsUpdateListeners) Spec_Fetch(listenerName string) *SatisfactionLevelsUpdateListener {
	fun, ok := (sl.Listeners)[listenerName]
	if !ok {
		keys := make([]string, 0)
		for k := range sl.Listeners {
			keys = append(keys, k)
		}
		sort.Strings(keys)
		panic(fmt.Errorf("satisfaction levels update listener for '%s' not found, available are '%s'", listenerName, keys))
	}
	listener := fun.(SatisfactionLevelsUpdateListener)
	return &listener
}

func (sl *SatisfactionLevelsUpdateListeners) Spec_Get(listenerName string, params interface{}) (SatisfactionLevelsUpdateListener, SatisfactionLevels) {
	listener := *sl.Spec_Fetch(listenerName)
	methodParams := listener.BlankParams()
	utils.Spec_DecodeToStruct(params, &methodParams)
	return listener, methodParams
}
