package satisfaction_levels

import (
	"fmt"
	"github.com/Azbesciak/RealDecisionMaker/lib/utils"
	"sort"
)

func (sl *SatisfactionLevelsUpdateListeners) Spec_Fetch(listenerName string) *SatisfactionLevelsUpdateListener {
	fun, ok := (sl.Listeners)[listenerName]
	if !ok {
		keys := make([]string, 0)
		for k := range sl.Listeners {
			keys = append(keys, k)
		}
		sort.Strings(keys)
		panic(fmt.Errorf("satisfaction levels update listener for '%s' not found, available are '%s'", listenerName, keys))
	}
	listener := fun.(SatisfactionLevelsUpdateListener)
	return &listener
}

func (sl *SatisfactionLevelsUpdateListeners) Spec_Get(listenerName string, params interface{}) (SatisfactionLevelsUpdateListener, SatisfactionLevels) {
	listener := *sl.Fetch(listenerName)
	methodParams := listener.BlankParams()
	utils.DecodeToStruct(params, &methodParams)
	return listener, methodParams
}
