package utils

import (
	"math"
)

func (e *ExpFromZeroFunction) Spec_Evaluate(value float64) float64 {
	return e.Multiplier*math.Exp(e.Alpha*value) - e.Multiplier
}
