// Reference implementation (specification) for the RealDecisionMaker verification framework.
//
// This file is NOT part of the repository build. The analyzer (/verif/analyzer) loads it as an
// in-memory overlay next to the package it describes and compares, statically, the value graph of
// every Spec_X declaration with that of the repository's X (see DESIGN.md, engine E5). Each
// function states what the corresponding repository function has to compute according to
// /verif/properties.jsonl; it was reviewed against the property statements, not generated at
// check time, and it is never executed.

package utils

import (
	"math"
)

func (e *ExpFromZeroFunction) Spec_Evaluate(value float64) float64 {
	// C17, C19: multiplier x (e^(alpha x value) - 1), evaluated without cancelling the leading 1
	return e.Multiplier * math.Expm1(e.Alpha*value)
}
