package utils

import (
	"github.com/google/go-cmp/cmp"
	"github.com/google/go-cmp/cmp/cmpopts"
	"github.com/mitchellh/mapstructure"
	"math"
	"math/rand"
	"reflect"
	"testing"
)

func Spec_ContainsString(slice *[]string, value *string) bool {
	for _, v := range *slice {
		if v == *value {
			return true
		}
	}
	return false
}

func Spec_RemoveSingleStringOccurrence(s []string, r string) []string {
	for i, v := range s {
		if v == r {
			return append(s[:i], s[i+1:]...)
		}
	}
	return s
}

func Spec_ContainsInts(slice *[]int, value *int) bool {
	for _, v := range *slice {
		if v == *value {
			return true
		}
	}
	return false
}

func Spec_FloatsAreEqual(expected float64, actual float64, epsilon float64) bool {
	return math.Abs(expected-actual) <= epsilon
}

func Spec_ErrorDiffers(err interface{}, message string) bool {
	return err.(error).Error() != message
}

func Spec_ExpectError(t *testing.T, expectedMessage string) func() {
	return func() {
		if e := recover(); e == nil {
			t.Errorf("expected error with message '%s'", expectedMessage)
		} else if ErrorDiffers(e, expectedMessage) {
			t.Errorf("invalid error message:\nactual   '%s'\nexpected '%s'", e, expectedMessage)
		}
	}
}

func Spec_CheckValueRange(t *testing.T, valueRange ValueRange, expMin, expMax float64) {
	validateValue(t, "min", expMin, valueRange.Min)
	validateValue(t, "max", expMax, valueRange.Max)
}

func Spec_validateValue(t *testing.T, name string, expected, actual float64) {
	if !FloatsAreEqual(actual, expected, 1e-6) {
		t.Errorf("%s value expected %f, got %f", name, expected, actual)
	}
}

func Spec_IsPositive(value float64) bool {
	return value > 0
}

func Spec_IsInBounds(value float64, lower float64, upper float64) bool {
	return value >= lower && value <= upper
}

func Spec_IsProbability(value float64) bool {
	return IsInBounds(value, 0, 1)
}

func Spec_DecodeToStruct(src, target interface{}) {
	e := mapstructure.Decode(src, target)
	if e != nil {
		panic(e)
	}
}

func (r *ValueRange) Spec_Diff() float64 {
	return r.Max - r.Min
}

func (r *ValueRange) Spec_ScaleEqually(scale float64) *ValueRange {
	dif := r.Diff() / 2
	return &ValueRange{
		Min: r.Min + dif - dif*scale,
		Max: r.Max - dif + dif*scale,
	}
}

func Spec_NewValueRange() *ValueRange {
	return &ValueRange{
		Min: 0,
		Max: 0,
	}
}

func Spec_RandomGenerator(seed int64) *rand.Rand {
	source := rand.NewSource(seed)
	return rand.New(source)
}

func Spec_RandomBasedSeedValueGenerator(seed int64) ValueGenerator {
	gen := RandomGenerator(seed)
	return func() float64 {
		return gen.Float64()
	}
}

func Spec_NewValueInRangeGenerator(generator ValueGenerator, valueRange *ValueRange) ValueGenerator {
	dif := valueRange.Max - valueRange.Min
	return func() float64 {
		return generator()*dif + valueRange.Min
	}
}

func Spec_Differs(a, b interface{}) bool {
	return !cmp.Equal(a, b, cmpopts.EquateApprox(0, 1e-8), cmp.Exporter(func(r reflect.Type) bool {
		return true
	}))
}
