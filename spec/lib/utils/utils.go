// Reference implementation (specification) for the RealDecisionMaker verification framework.
//
// This file is NOT part of the repository build. The analyzer (/verif/analyzer) loads it as an
// in-memory overlay next to the package it describes and compares, statically, the value graph of
// every Spec_X declaration with that of the repository's X (see DESIGN.md, engine E5). Each
// function states what the corresponding repository function has to compute according to
// /verif/properties.jsonl; it was reviewed against the property statements, not generated at
// check time, and it is never executed.

package utils

import (
	"github.com/mitchellh/mapstructure"
	"math"
	"math/rand"
	"reflect"
)

func Spec_ContainsString(slice *[]string, value *string) bool {
	for _, v := range *slice {
		if v == *value {
			return true
		}
	}
	return false
}

func Spec_RemoveSingleStringOccurrence(s []string, r string) []string {
	for i, v := range s {
		if v == r {
			return append(s[:i], s[i+1:]...)
		}
	}
	return s
}

func Spec_ContainsInts(slice *[]int, value *int) bool {
	for _, v := range *slice {
		if v == *value {
			return true
		}
	}
	return false
}

func Spec_FloatsAreEqual(expected float64, actual float64, epsilon float64) bool {
	return math.Abs(expected-actual) <= epsilon
}

func Spec_IsPositive(value float64) bool {
	return value > 0
}

func Spec_IsInBounds(value float64, lower float64, upper float64) bool {
	return value >= lower && value <= upper
}

func Spec_IsProbability(value float64) bool {
	return Spec_IsInBounds(value, 0, 1)
}

func Spec_DecodeToStruct(src, target interface{}) {
	// C02: case-ambiguous keys are refused before the (map-order dependent) decoder sees them
	Spec_rejectAmbiguousKeys(src, reflect.TypeOf(target))
	e := mapstructure.Decode(src, target)
	if e != nil {
		panic(e)
	}
}

func (r *ValueRange) Spec_Diff() float64 {
	return r.Max - r.Min
}

func (r *ValueRange) Spec_ScaleEqually(scale float64) *ValueRange {
	// C18: the range scaled about its centre; a negative factor covers the same interval as its absolute value
	dif := r.Spec_Diff() / 2
	factor := math.Abs(scale)
	return &ValueRange{
		Min: r.Min + dif - dif*factor,
		Max: r.Max - dif + dif*factor,
	}
}

func Spec_NewValueRange() *ValueRange {
	return &ValueRange{
		Min: 0,
		Max: 0,
	}
}

func Spec_RandomGenerator(seed int64) *rand.Rand {
	source := rand.NewSource(seed)
	return rand.New(source)
}

func Spec_RandomBasedSeedValueGenerator(seed int64) ValueGenerator {
	gen := Spec_RandomGenerator(seed)
	return func() float64 {
		return gen.Float64()
	}
}

func Spec_NewValueInRangeGenerator(generator ValueGenerator, valueRange *ValueRange) ValueGenerator {
	dif := valueRange.Max - valueRange.Min
	return func() float64 {
		return generator()*dif + valueRange.Min
	}
}

