// Reference implementation (specification) for the RealDecisionMaker verification framework.
//
// This file is NOT part of the repository build. The analyzer (/verif/analyzer) loads it as an
// in-memory overlay next to the package it describes and compares, statically, the value graph of
// every Spec_X declaration with that of the repository's X (see DESIGN.md, engine E5).

package utils

import (
	"fmt"
	"reflect"
	"sort"
	"unicode"
)

// C02: nothing depends on map iteration order. The struct decoder resolves keys case-insensitively in map order, so an
// object that is decoded into a struct must not carry two keys that differ only in letter case; such a request is
// rejected (always, whichever pair is named). Maps decoded into maps keep their keys as data.
func Spec_rejectAmbiguousKeys(src interface{}, target reflect.Type) {
	if src == nil || target == nil {
		return
	}
	for target.Kind() == reflect.Ptr {
		target = target.Elem()
	}
	value := reflect.ValueOf(src)
	for value.Kind() == reflect.Ptr || value.Kind() == reflect.Interface {
		if value.IsNil() {
			return
		}
		value = value.Elem()
	}
	switch target.Kind() {
	case reflect.Struct:
		if value.Kind() != reflect.Map {
			return
		}
		// C02: the decoder matches the string keys of maps keyed by strings and of maps keyed by interface{}
		keyKind := value.Type().Key().Kind()
		if keyKind != reflect.String && keyKind != reflect.Interface {
			return
		}
		keys := make([]string, 0, value.Len())
		mapKeys := make(map[string]reflect.Value, value.Len())
		for _, k := range value.MapKeys() {
			name := k
			if keyKind == reflect.Interface {
				name = k.Elem()
			}
			if name.Kind() != reflect.String {
				continue
			}
			keys = append(keys, name.String())
			mapKeys[name.String()] = k
		}
		// sorted: which pair is reported does not depend on the order in which the keys were handed out
		sort.Strings(keys)
		// C08: only the keys that name a field are searched for by the decoder; any other key is not read at all, so a
		// (disabled) entry carrying "note" and "Note" stays acceptable
		fields := make(map[string]reflect.Type, target.NumField())
		for i := 0; i < target.NumField(); i++ {
			field := target.Field(i)
			fields[Spec_foldKey(field.Name)] = field.Type
		}
		seen := make(map[string]string, len(keys))
		for _, k := range keys {
			folded := Spec_foldKey(k)
			fieldType, isField := fields[folded]
			if !isField {
				continue
			}
			if other, taken := seen[folded]; taken {
				panic(fmt.Errorf("keys '%s' and '%s' differ only in letter case", other, k))
			}
			seen[folded] = k
			// the value of every field the decoder would fill is checked against the field's type
			Spec_rejectAmbiguousKeys(value.MapIndex(mapKeys[k]).Interface(), fieldType)
		}
	case reflect.Slice, reflect.Array:
		if value.Kind() != reflect.Slice && value.Kind() != reflect.Array {
			return
		}
		for i := 0; i < value.Len(); i++ {
			Spec_rejectAmbiguousKeys(value.Index(i).Interface(), target.Elem())
		}
	case reflect.Map:
		if value.Kind() != reflect.Map {
			return
		}
		for _, k := range value.MapKeys() {
			Spec_rejectAmbiguousKeys(value.MapIndex(k).Interface(), target.Elem())
		}
	}
}

// Two keys compete for one struct field exactly when strings.EqualFold holds for them (that is the decoder's test), so
// the canonical form is the smallest rune of each rune's simple case-folding class - not strings.ToLower, which leaves
// the long s U+017F apart from 's'.
func Spec_foldKey(key string) string {
	folded := make([]rune, 0, len(key))
	for _, r := range key {
		smallest := r
		for f := unicode.SimpleFold(r); f != r; f = unicode.SimpleFold(f) {
			if f < smallest {
				smallest = f
			}
		}
		folded = append(folded, smallest)
	}
	return string(folded)
}
