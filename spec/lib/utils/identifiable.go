// Reference implementation (specification) for the RealDecisionMaker verification framework.
//
// This file is NOT part of the repository build. The analyzer (/verif/analyzer) loads it as an
// in-memory overlay next to the package it describes and compares, statically, the value graph of
// every Spec_X declaration with that of the repository's X (see DESIGN.md, engine E5). Each
// function states what the corresponding repository function has to compute according to
// /verif/properties.jsonl; it was reviewed against the property statements, not generated at
// check time, and it is never executed.

package utils


func Spec_AsMap(objects IdentifiableIterable) *IdentityMap {
	var total = objects.Len()
	var interfaceSlice = make(IdentityMap, total)
	for i := 0; i < total; i++ {
		value := objects.Get(i)
		interfaceSlice[value.Identifier()] = value
	}
	return &interfaceSlice
}

func Spec_ToIdentifiable(objects IdentifiableIterable) *[]Identifiable {
	var total = objects.Len()
	var interfaceSlice = make([]Identifiable, total)
	for i := 0; i < total; i++ {
		interfaceSlice[i] = objects.Get(i)
	}
	return &interfaceSlice
}

func Spec_ContainsByIdentity(slice *[]Identifiable, value *string) bool {
	for _, v := range *slice {
		if *value == v.Identifier() {
			return true
		}
	}
	return false
}

func Spec_ContainsAll(slice *[]Identifiable, values *[]string) bool {
	for _, v := range *values {
		if !Spec_ContainsByIdentity(slice, &v) {
			return false
		}
	}
	return true
}
