package utils


func (f *LinearFunctionParameters) Spec_Evaluate(value float64) (result float64, ok bool) {
	if f.A == 0 && f.B == 0 {
		return 0, false
	}
	return f.A*value + f.B, true
}
