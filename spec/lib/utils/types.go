// Reference declarations of the struct types of this package (fields, types and tags as the API documents them).
// Loaded by the analyzer as an in-memory overlay only; see DESIGN.md, engine E5 (rule E5-types).

package utils

type Spec_ExpFromZeroFunction struct {
	Alpha      float64 `json:"alpha"`
	Multiplier float64 `json:"multiplier"`
}

type Spec_LinearFunctionParameters struct {
	A float64 `json:"a"`
	B float64 `json:"b"`
}

type Spec_ValueRange struct {
	Min float64 `json:"min"`
	Max float64 `json:"max"`
}
