// Reference implementation (specification) for the RealDecisionMaker verification framework.
//
// This file is NOT part of the repository build. The analyzer (/verif/analyzer) loads it as an
// in-memory overlay next to the package it describes and compares, statically, the value graph of
// every Spec_X declaration with that of the repository's X (see DESIGN.md, engine E5). Each
// function states what the corresponding repository function has to compute according to
// /verif/properties.jsonl; it was reviewed against the property statements, not generated at
// check time, and it is never executed.

package model

import (
	"fmt"
	"github.com/Azbesciak/RealDecisionMaker/lib/utils"
)

func Spec_Rank(dmp *DecisionMakingParams, pref AlternativeWeightFunction) *AlternativesRanking {
	results := make(AlternativeResults, len(dmp.ConsideredAlternatives))
	for i, alternative := range dmp.ConsideredAlternatives {
		results[i] = *pref(&alternative)
	}
	return results.Spec_Ranking()
}

func Spec_SingleWeight(criterion *Criterion, value Weight) WeightType {
	return WeightType{Weights: Weights{criterion.Id: value}}
}

func Spec_WeightsParamOnly() interface{} {
	return WeightType{}
}

func Spec_ExtractWeights(dm *DecisionMaker) Weights {
	weights, ok := dm.MethodParameters[WeightsParam]
	if !ok {
		panic(fmt.Errorf("weights not found"))
	}
	weightsParsed := make(Weights)
	utils.Spec_DecodeToStruct(weights, &weightsParsed)
	return weightsParsed
}
