package model

import (
	"fmt"
	"github.com/Azbesciak/RealDecisionMaker/lib/utils"
)

func Spec_Rank(dmp *DecisionMakingParams, pref AlternativeWeightFunction) *AlternativesRanking {
	results := make(AlternativeResults, len(dmp.ConsideredAlternatives))
	for i, alternative := range dmp.ConsideredAlternatives {
		results[i] = *pref(&alternative)
	}
	return results.Ranking()
}

func Spec_SingleWeight(criterion *Criterion, value Weight) WeightType {
	return WeightType{Weights: Weights{criterion.Id: value}}
}

func Spec_WeightsParamOnly() interface{} {
	return WeightType{}
}

func Spec_ExtractWeights(dm *DecisionMaker) Weights {
	weights, ok := dm.MethodParameters[WeightsParam]
	if !ok {
		panic(fmt.Errorf("weights not found"))
	}
	weightsParsed := make(Weights)
	utils.DecodeToStruct(weights, &weightsParsed)
	return weightsParsed
}
