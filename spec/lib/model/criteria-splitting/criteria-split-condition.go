// Reference implementation (specification) for the RealDecisionMaker verification framework.
//
// This file is NOT part of the repository build. The analyzer (/verif/analyzer) loads it as an
// in-memory overlay next to the package it describes and compares, statically, the value graph of
// every Spec_X declaration with that of the repository's X (see DESIGN.md, engine E5). Each
// function states what the corresponding repository function has to compute according to
// /verif/properties.jsonl; it was reviewed against the property statements, not generated at
// check time, and it is never executed.

package criteria_splitting

import (
	"fmt"
	"github.com/Azbesciak/RealDecisionMaker/lib/model"
	"github.com/Azbesciak/RealDecisionMaker/lib/utils"
	"math"
)

func Spec_Parse(props *interface{}) *CriteriaSplitCondition {
	parsedProps := CriteriaSplitCondition{Max: math.MaxInt64}
	utils.Spec_DecodeToStruct(*props, &parsedProps)
	parsedProps.Spec_validate()
	return &parsedProps
}

func (c *CriteriaSplitCondition) Spec_validate() {
	if !utils.Spec_IsProbability(c.Ratio) {
		panic(fmt.Errorf("'ratio' need to be in range [0,1], got %f", c.Ratio))
	}
	if c.Max < c.Min {
		panic(fmt.Errorf("'max' (%v) is lower than 'min' (%v)", c.Max, c.Min))
	}
}

func (c *CriteriaSplitCondition) Spec_SplitCriteriaByOrdering(sortedCriteria *model.Criteria) *CriteriaPartition {
	criteriaCount := len(*sortedCriteria)
	pivot := int(math.Floor(float64(criteriaCount) * c.Ratio))
	if pivot < c.Min {
		pivot = c.Min
	} else if pivot > c.Max {
		pivot = c.Max
	}
	// C07: never more than there are (an earlier bias may have removed criteria), never less than none
	if criteriaCount < pivot {
		pivot = criteriaCount
	}
	if pivot < 0 {
		pivot = 0
	}
	left := (*sortedCriteria)[0:pivot]
	right := (*sortedCriteria)[pivot:]
	return &CriteriaPartition{
		Left:  &left,
		Right: &right,
	}
}
