// Reference declarations of the struct types of this package (fields, types and tags as the API documents them).
// Loaded by the analyzer as an in-memory overlay only; see DESIGN.md, engine E5 (rule E5-types).

package criteria_splitting

import (
	"github.com/Azbesciak/RealDecisionMaker/lib/model"
)

type Spec_CriteriaSplitCondition struct {
	Ratio float64 `json:"ratio"`
	Min   int     `json:"min"`
	Max   int     `json:"max"`
}

type Spec_CriteriaPartition struct {
	Left  *model.Criteria
	Right *model.Criteria
}
