package model

import (
	"fmt"
	"github.com/Azbesciak/RealDecisionMaker/lib/utils"
	"github.com/alecthomas/jsonschema"
)

func (pf *PreferenceFunctions) Spec_Get(index int) utils.Identifiable {
	return pf.Functions[index]
}

func (pf *PreferenceFunctions) Spec_Len() int {
	return len(pf.Functions)
}

func (pf *PreferenceFunctions) Spec_Fetch(function string) *PreferenceFunction {
	preferenceFunMap := utils.AsMap(pf)
	fun, ok := (*preferenceFunMap)[function]
	if !ok {
		var keys []string
		for _, k := range pf.Functions {
			keys = append(keys, k.Identifier())
		}
		panic(fmt.Errorf("preference function '%s' not found, available are '%s'", function, keys))
	}
	preferenceFunction := fun.(PreferenceFunction)
	return &preferenceFunction
}

func (pf *PreferenceFunctions) Spec_FetchParameters() *map[string]interface{} {
	var functionsParameters = make(map[string]interface{}, pf.Len())
	reflector := jsonschema.Reflector{ExpandedStruct: true}
	for _, f := range pf.Functions {
		functionsParameters[f.Identifier()] = reflector.Reflect(f.MethodParameters())
	}
	return &functionsParameters
}
