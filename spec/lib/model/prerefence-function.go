// Reference implementation (specification) for the RealDecisionMaker verification framework.
//
// This file is NOT part of the repository build. The analyzer (/verif/analyzer) loads it as an
// in-memory overlay next to the package it describes and compares, statically, the value graph of
// every Spec_X declaration with that of the repository's X (see DESIGN.md, engine E5). Each
// function states what the corresponding repository function has to compute according to
// /verif/properties.jsonl; it was reviewed against the property statements, not generated at
// check time, and it is never executed.

package model

import (
	"fmt"
	"github.com/Azbesciak/RealDecisionMaker/lib/utils"
	"github.com/alecthomas/jsonschema"
)

func (pf *PreferenceFunctions) Spec_Get(index int) utils.Identifiable {
	return pf.Functions[index]
}

func (pf *PreferenceFunctions) Spec_Len() int {
	return len(pf.Functions)
}

func (pf *PreferenceFunctions) Spec_Fetch(function string) *PreferenceFunction {
	preferenceFunMap := utils.Spec_AsMap(pf)
	fun, ok := (*preferenceFunMap)[function]
	if !ok {
		var keys []string
		for _, k := range pf.Functions {
			keys = append(keys, k.Identifier())
		}
		panic(fmt.Errorf("preference function '%s' not found, available are '%s'", function, keys))
	}
	preferenceFunction := fun.(PreferenceFunction)
	return &preferenceFunction
}

func (pf *PreferenceFunctions) Spec_FetchParameters() *map[string]interface{} {
	var functionsParameters = make(map[string]interface{}, pf.Spec_Len())
	reflector := jsonschema.Reflector{ExpandedStruct: true}
	for _, f := range pf.Functions {
		functionsParameters[f.Identifier()] = reflector.Reflect(f.MethodParameters())
	}
	return &functionsParameters
}
