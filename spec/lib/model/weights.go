// Reference implementation (specification) for the RealDecisionMaker verification framework.
//
// This file is NOT part of the repository build. The analyzer (/verif/analyzer) loads it as an
// in-memory overlay next to the package it describes and compares, statically, the value graph of
// every Spec_X declaration with that of the repository's X (see DESIGN.md, engine E5). Each
// function states what the corresponding repository function has to compute according to
// /verif/properties.jsonl; it was reviewed against the property statements, not generated at
// check time, and it is never executed.

package model

import (
	"fmt"
	"sort"
	"strings"
)

func (w *Weights) Spec_Fetch(key string) Weight {
	if v, ok := (*w)[key]; !ok {
		values := w.Spec_AsKeyValue()
		panic(fmt.Errorf("criterion %s not found in %v", key, values))
	} else {
		return v
	}
}

func (w *Weights) Spec_PreserveOnly(criteria *Criteria) *Weights {
	cpy := make(Weights, len(*criteria))
	for _, c := range *criteria {
		cpy[c.Id] = w.Spec_Fetch(c.Id)
	}
	return &cpy
}

func (w *Weights) Spec_Merge(other *Weights) *Weights {
	result := make(Weights, len(*other)+len(*w))
	for cryt, weight := range *w {
		result[cryt] = weight
	}
	for cryt, weight := range *other {
		if _, ok := result[cryt]; ok {
			oldWeights := w.Spec_AsKeyValue()
			newWeights := other.Spec_AsKeyValue()
			panic(fmt.Errorf("criterion '%s' from %v already exists in %v", cryt, oldWeights, newWeights))
		}
		result[cryt] = weight
	}
	return &result
}

func (w *Weights) Spec_Copy() *Weights {
	result := make(Weights, len(*w))
	for c, weight := range *w {
		result[c] = weight
	}
	return &result
}

func (w *Weights) Spec_AsKeyValue() []namedWeight {
	criteria := make([]namedWeight, len(*w))
	i := 0
	for crit, value := range *w {
		criteria[i] = namedWeight{crit, value}
		i++
	}
	sort.SliceStable(criteria, func(i, j int) bool {
		return strings.Compare(criteria[i].name, criteria[j].name) < 0
	})
	return criteria
}
