// Reference implementation (specification) for the RealDecisionMaker verification framework.
//
// This file is NOT part of the repository build. The analyzer (/verif/analyzer) loads it as an
// in-memory overlay next to the package it describes and compares, statically, the value graph of
// every Spec_X declaration with that of the repository's X (see DESIGN.md, engine E5). Each
// function states what the corresponding repository function has to compute according to
// /verif/properties.jsonl; it was reviewed against the property statements, not generated at
// check time, and it is never executed.

package model

import (
	"github.com/Azbesciak/RealDecisionMaker/lib/utils"
	"math"
)

func Spec_ValuesRangeWithGroundZero(alternatives *[]AlternativeWithCriteria, criterion *Criterion) *utils.ValueRange {
	valRange := Spec_CriteriaValuesRange(alternatives, criterion)
	minAbs := math.Abs(valRange.Min)
	maxAbs := math.Abs(valRange.Max)
	return &utils.ValueRange{
		Min: 0,
		Max: math.Max(math.Max(minAbs, maxAbs), valRange.Spec_Diff()),
	}
}

func Spec_RescaleCriterion(c *Criterion, alternatives *[]AlternativeWithCriteria, target *utils.ValueRange) Weights {
	currentRange := Spec_CriteriaValuesRange(alternatives, c)
	scaledCriterionValues := make(Weights, len(*alternatives))
	scale := Spec_GetScaleRatio(target, currentRange)
	for _, a := range *alternatives {
		scaledCriterionValues[a.Id] = Spec_scaleCriterion(c, a, currentRange, scale, target)
	}
	return scaledCriterionValues
}

func Spec_scaleCriterion(c *Criterion, a AlternativeWithCriteria, currentRange *utils.ValueRange, scale float64, target *utils.ValueRange) Weight {
	value := a.Spec_CriterionRawValue(c)
	if scale == 0 {
		return target.Min
	}
	// C18: rescaled to [0, T] - the share of the current range first, so that its end is mapped onto T exactly
	if c.Type == Cost {
		return (currentRange.Max-value)/currentRange.Spec_Diff()*target.Spec_Diff() + target.Min
	} else {
		return (value-currentRange.Min)/currentRange.Spec_Diff()*target.Spec_Diff() + target.Min
	}
}

func Spec_GetNormalScaleRatio(currentRange *utils.ValueRange) float64 {
	return Spec_GetScaleRatio(&_normalRange, currentRange)
}

func Spec_GetScaleRatio(target *utils.ValueRange, currentRange *utils.ValueRange) float64 {
	targetDif := target.Spec_Diff()
	currentDif := currentRange.Spec_Diff()
	scale := 0.0
	if currentDif != 0 {
		scale = targetDif / currentDif
	}
	return scale
}

var Spec__normalRange = utils.ValueRange{
	Min: 0,
	Max: 1,
}
