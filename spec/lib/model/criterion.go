// Reference implementation (specification) for the RealDecisionMaker verification framework.
//
// This file is NOT part of the repository build. The analyzer (/verif/analyzer) loads it as an
// in-memory overlay next to the package it describes and compares, statically, the value graph of
// every Spec_X declaration with that of the repository's X (see DESIGN.md, engine E5). Each
// function states what the corresponding repository function has to compute according to
// /verif/properties.jsonl; it was reviewed against the property statements, not generated at
// check time, and it is never executed.

package model

import (
	"fmt"
	"github.com/Azbesciak/RealDecisionMaker/lib/utils"
	"sort"
	"strconv"
	"strings"
)

func (c Criterion) Spec_Identifier() string {
	return c.Id
}

func (c *Criteria) Spec_Len() int {
	return len(*c)
}

func (c *Criteria) Spec_Get(index int) utils.Identifiable {
	return (*c)[index]
}

func (c *Criteria) Spec_ShallowCopy() *Criteria {
	criteriaCopy := make(Criteria, len(*c))
	copy(criteriaCopy, *c)
	return &criteriaCopy
}

func (c *Criteria) Spec_Validate() {
	criteriaSet := make(map[string]bool)
	for i, criterion := range *c {
		if _, ok := criteriaSet[criterion.Id]; ok {
			panic(fmt.Errorf("criterion '%s' [index %d] is not unique", criterion.Id, i))
		}
		if criterion.ValuesRange != nil && criterion.ValuesRange.Max <= criterion.ValuesRange.Min {
			panic(fmt.Errorf("criterion '%s' [index %d] has invalid value range %v: min must be lower than max",
				criterion.Id, i, *criterion.ValuesRange,
			))
		}
		criteriaSet[criterion.Id] = true
	}
}

func (c *Criteria) Spec_NotUsedName(name string) string {
	// C18: an id not used before - the counted candidate is only a starting point (ids may have been omitted, or the
	// user may own an id of the same shape)
	count := c.Spec_countWithPrefix(name)
	candidate := Spec_firstFreeName(name, count)
	for c.Spec_isUsed(candidate) {
		count++
		candidate = Spec_firstFreeName(name, count)
	}
	return candidate
}

func (c *Criteria) Spec_isUsed(id string) bool {
	for _, existing := range *c {
		if existing.Id == id {
			return true
		}
	}
	return false
}

func Spec_firstFreeName(name string, count int) string {
	if count == 0 {
		return name
	} else {
		return name + strconv.Itoa(count)
	}
}

func (c *Criteria) Spec_countWithPrefix(prefix string) int {
	concealedCriteriaCount := 0
	for _, cr := range *c {
		if strings.HasPrefix(cr.Id, prefix) {
			concealedCriteriaCount += 1
		}
	}
	return concealedCriteriaCount
}

func (c *Criteria) Spec_SortByWeights(weights Weights) *WeightedCriteria {
	result := make(WeightedCriteria, len(*c))
	for i, criterion := range *c {
		result[i] = WeightedCriterion{
			Criterion: criterion,
			Weight:    c.Spec_Weight(weights, i),
		}
	}
	sort.SliceStable(result, func(i, j int) bool {
		return result[i].Weight < result[j].Weight
	})
	return &result
}

func (c *Criteria) Spec_Weight(weights Weights, criterionIndex int) Weight {
	return c.Spec_FindWeight(&weights, &(*c)[criterionIndex])
}

func (c *Criteria) Spec_FindWeight(weights *Weights, criterion *Criterion) Weight {
	if v, ok := (*weights)[criterion.Id]; !ok {
		criteria := weights.Spec_AsKeyValue()
		panic(fmt.Errorf("weight for criterion '%s' not found in criteria %v", criterion.Id, criteria))
	} else {
		return v
	}
}

func (c *Criteria) Spec_First() Criterion {
	return (*c)[0]
}

// C03/C05/C11-C14: +1 for gain criteria (the default for any type that is not "cost"), -1 for cost criteria
func (c *Criterion) Spec_Multiplier() int8 {
	if c.Type != Cost {
		return 1
	}
	return -1
}

func (c *Criterion) Spec_IsGain() bool {
	return c.Spec_Multiplier() == 1
}

func (c *Criteria) Spec_Names() *[]string {
	result := make([]string, len(*c))
	for i, crit := range *c {
		result[i] = crit.Id
	}
	return &result
}

func (c *Criteria) Spec_Add(criterion *Criterion) Criteria {
	for _, crit := range *c {
		if crit.Id == criterion.Id {
			panic(fmt.Errorf("cannot add criterion '%v' - already exists in criteria: %v", *criterion, *c))
		}
	}
	// C09: the result is a fresh list; the receiver may be the caller's slice with spare capacity other holders share
	extended := make(Criteria, len(*c), len(*c)+1)
	copy(extended, *c)
	return append(extended, *criterion)
}

func (w *WeightedCriteria) Spec_Criteria() *Criteria {
	result := make(Criteria, len(*w))
	for i, c := range *w {
		result[i] = c.Criterion
	}
	return &result
}

func (c *Criteria) Spec_ZipWithWeights(weights *Weights) *WeightedCriteria {
	weightedCriteria := make(WeightedCriteria, len(*c))
	for i, crit := range *c {
		value := c.Spec_FindWeight(weights, &crit)
		weightedCriteria[i] = WeightedCriterion{
			Criterion: crit,
			Weight:    value,
		}
	}
	return &weightedCriteria
}

func (c *WeightedCriterion) Spec_AsWeights() *Weights {
	return &Weights{c.Id: c.Weight}
}
