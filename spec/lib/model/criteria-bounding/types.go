// Reference declarations of the struct types of this package (fields, types and tags as the API documents them).
// Loaded by the analyzer as an in-memory overlay only; see DESIGN.md, engine E5 (rule E5-types).

package criteria_bounding

import (
	"github.com/Azbesciak/RealDecisionMaker/lib/utils"
)

type Spec_CriteriaBounding struct {
	AllowedValuesRangeScaling float64 `json:"allowedValuesRangeScaling"`
	DisallowNegativeValues    bool    `json:"disallowNegativeValues"`
}

type Spec_CriteriaInRangeBounding struct {
	bounding   *CriteriaBounding
	valueRange *utils.ValueRange
}
