// Reference implementation (specification) for the RealDecisionMaker verification framework.
//
// This file is NOT part of the repository build. The analyzer (/verif/analyzer) loads it as an
// in-memory overlay next to the package it describes and compares, statically, the value graph of
// every Spec_X declaration with that of the repository's X (see DESIGN.md, engine E5). Each
// function states what the corresponding repository function has to compute according to
// /verif/properties.jsonl; it was reviewed against the property statements, not generated at
// check time, and it is never executed.

package criteria_bounding

import (
	"fmt"
	"github.com/Azbesciak/RealDecisionMaker/lib/utils"
)

func Spec_DefaultParams() *CriteriaBounding {
	return &CriteriaBounding{
		AllowedValuesRangeScaling: -1.0,
		DisallowNegativeValues:    false,
	}
}

func Spec_FromParams(params *interface{}) *CriteriaBounding {
	bounding := Spec_DefaultParams()
	utils.Spec_DecodeToStruct(*params, bounding)
	if bounding.AllowedValuesRangeScaling == 0 {
		panic(fmt.Errorf("allowedValuesRangeScaling cannot be 0"))
	}
	return bounding
}

func (b *CriteriaBounding) Spec_WithRange(valueRange *utils.ValueRange) *CriteriaInRangeBounding {
	var scaled *utils.ValueRange = nil
	if b.AllowedValuesRangeScaling > 0 {
		scaled = Spec_scaleRange(valueRange, b.AllowedValuesRangeScaling)
	}
	return &CriteriaInRangeBounding{
		bounding:   b,
		valueRange: scaled,
	}
}

func (b *CriteriaInRangeBounding) Spec_BoundValue(value float64) float64 {
	value = b.bounding.Spec_trimBelowZeroIfRequired(value)
	if b.valueRange == nil {
		return value
	}
	return Spec_boundValueInRange(value, b.valueRange)
}

func (b *CriteriaBounding) Spec_BoundValue(value float64, valueRange *utils.ValueRange) float64 {
	value = b.Spec_trimBelowZeroIfRequired(value)
	return Spec_boundValue(value, b.AllowedValuesRangeScaling, valueRange)
}

func (b *CriteriaBounding) Spec_trimBelowZeroIfRequired(value float64) float64 {
	if b.DisallowNegativeValues && value < 0 {
		value = 0
	}
	return value
}

func Spec_boundValue(value, scaling float64, valueRange *utils.ValueRange) float64 {
	if scaling > 0 {
		scaledRange := Spec_scaleRange(valueRange, scaling)
		return Spec_boundValueInRange(value, scaledRange)
	}
	return value
}

func Spec_boundValueInRange(value float64, scaledRange *utils.ValueRange) float64 {
	if value < scaledRange.Min {
		value = scaledRange.Min
	}
	if value > scaledRange.Max {
		value = scaledRange.Max
	}
	return value
}

func Spec_scaleRange(valueRange *utils.ValueRange, scaling float64) *utils.ValueRange {
	if scaling == 1 {
		return valueRange
	} else {
		return valueRange.Spec_ScaleEqually(scaling)
	}
}
