// Reference implementation (specification) for the RealDecisionMaker verification framework.
//
// This file is NOT part of the repository build. The analyzer (/verif/analyzer) loads it as an
// in-memory overlay next to the package it describes and compares, statically, the value graph of
// every Spec_X declaration with that of the repository's X (see DESIGN.md, engine E5). Each
// function states what the corresponding repository function has to compute according to
// /verif/properties.jsonl; it was reviewed against the property statements, not generated at
// check time, and it is never executed.

package model

import (
	"fmt"
	"github.com/Azbesciak/RealDecisionMaker/lib/utils"
	"math"
	"sort"
)

func Spec_ValueAlternativeResult(alternative *AlternativeWithCriteria, value float64) *AlternativeResult {
	return &AlternativeResult{
		Alternative: *alternative,
		Evaluation:  EvaluationSingleValue{Value: value},
	}
}

func (a *AlternativeResult) Spec_Identifier() string {
	return a.Alternative.Id
}

func (a *AlternativeResult) Spec_rounded() *AlternativeResult {
	// C03/C04: the API rounds every utility to 1e-8; a value of magnitude 2^53/1e8 or more has no such digits left
	// (and 1e8*v would lose precision or overflow), it is reported as it is
	utility := a.Spec_Value()
	if math.Abs(utility) < (1<<53)/1e8 {
		utility = math.Round(1e8*utility) / 1e8
	}
	return &AlternativeResult{
		Alternative: a.Alternative,
		Evaluation:  EvaluationSingleValue{utility},
	}
}

func (a *AlternativeResult) Spec_Value() float64 {
	value, ok := a.Evaluation.(EvaluationSingleValue)
	if !ok {
		panic(fmt.Errorf("evaluation must be instance of "))
	}
	return value.Value
}

func (a *AlternativeResults) Spec_Len() int {
	return len(*a)
}

func (a *AlternativeResults) Spec_Less(i, j int) bool {
	// C04: non-increasing value, equal values by ascending alternative id
	first, second := (*a)[i], (*a)[j]
	if first.Spec_Value() > second.Spec_Value() {
		return true
	}
	if first.Spec_Value() < second.Spec_Value() {
		return false
	}
	return first.Alternative.Id < second.Alternative.Id
}

func (a *AlternativeResults) Spec_Swap(i, j int) {
	(*a)[i], (*a)[j] = (*a)[j], (*a)[i]
}

func (a *AlternativeResults) Spec_Ranking() *AlternativesRanking {
	alternativesNum := len(*a)
	alternativeResults := make(AlternativeResults, alternativesNum)
	for i, alt := range *a {
		alternativeResults[i] = *alt.Spec_rounded()
	}
	sort.Sort(&alternativeResults)
	ranking := make(AlternativesRanking, alternativesNum)
	for i, r := range alternativeResults {
		ranking[i] = *r.Spec_positionInRanking(&alternativeResults)
	}
	return &ranking
}

func (a *AlternativeResult) Spec_positionInRanking(allAlternatives *AlternativeResults) *AlternativesRankEntry {
	var betterThanOrSameAs = Alternatives{}
	wasLowerValueFound := false
	nextLowerThanAltValue := a.Spec_Value()
	for _, r := range *allAlternatives {
		if r.Spec_Value() == a.Spec_Value() && r.Spec_Identifier() != a.Spec_Identifier() {
			betterThanOrSameAs = append(betterThanOrSameAs, r.Spec_Identifier())
		} else if r.Spec_Value() < a.Spec_Value() {
			if !wasLowerValueFound {
				wasLowerValueFound = true
				nextLowerThanAltValue = r.Spec_Value()
			}
			if r.Spec_Value() < nextLowerThanAltValue {
				break
			}
			betterThanOrSameAs = append(betterThanOrSameAs, r.Spec_Identifier())
		}
	}
	return &AlternativesRankEntry{
		AlternativeResult:  *a,
		BetterThanOrSameAs: betterThanOrSameAs,
	}
}

func (a *AlternativeWithCriteria) Spec_CriterionValue(criterion *Criterion) Weight {
	return a.Spec_CriterionRawValue(criterion) * Weight(criterion.Spec_Multiplier())
}

func (a *AlternativeWithCriteria) Spec_WithCriteriaOnly(criteria *Criteria) *AlternativeWithCriteria {
	newCriteria := make(Weights, len(*criteria))
	for _, c := range *criteria {
		newCriteria[c.Id] = a.Spec_CriterionRawValue(&c)
	}
	return a.Spec_WithCriteriaValues(&newCriteria)
}

func (a *AlternativeWithCriteria) Spec_WithCriteriaValues(criteriaValues *Weights) *AlternativeWithCriteria {
	return &AlternativeWithCriteria{
		Id:       a.Id,
		Criteria: *criteriaValues,
	}
}

func (a *AlternativeWithCriteria) Spec_CriterionRawValue(criterion *Criterion) Weight {
	weight, ok := a.Criteria[criterion.Id]
	if !ok {
		panic(fmt.Errorf("alternative '%s' does not have value for criterion '%s'", a.Id, criterion.Id))
	}
	return weight
}

func Spec_SortAlternativesByName(alternatives *[]AlternativeWithCriteria) *[]AlternativeWithCriteria {
	res := make([]AlternativeWithCriteria, len(*alternatives))
	copy(res, *alternatives)
	sort.Slice(res, func(i, j int) bool {
		return res[i].Id < res[j].Id
	})
	return &res
}

func Spec_ShuffleAlternatives(alternatives *[]AlternativeWithCriteria, generator utils.ValueGenerator) *[]AlternativeWithCriteria {
	alternativesCount := len(*alternatives)
	copied := make([]AlternativeWithCriteria, alternativesCount)
	copy(copied, *alternatives)
	for i := alternativesCount - 1; i > 0; i-- { // Fisher–Yates shuffle
		j := int(generator() * float64(i))
		copied[i], copied[j] = copied[j], copied[i]
	}
	return &copied
}

func Spec_CopyAlternatives(alternatives *[]AlternativeWithCriteria) *[]AlternativeWithCriteria {
	result := make([]AlternativeWithCriteria, len(*alternatives))
	copy(result, *alternatives)
	return &result
}

func Spec_AddCriterionToAlternatives(
	alternatives *[]AlternativeWithCriteria,
	newCriterion *Criterion,
	valueProvider func(alt *AlternativeWithCriteria) Weight,
) *[]AlternativeWithCriteria {
	newAlts := make([]AlternativeWithCriteria, len(*alternatives))
	for i, a := range *alternatives {
		newValue := valueProvider(&a)
		newAlts[i] = *a.Spec_WithCriterion(newCriterion.Id, newValue)
	}
	return &newAlts
}

func (a *AlternativeWithCriteria) Spec_WithCriterion(name string, value Weight) *AlternativeWithCriteria {
	if _, ok := a.Criteria[name]; ok {
		panic(fmt.Errorf("cannot add new criterion '%s' because it already exist in alternative %v", name, *a))
	}
	criteria := make(Weights, len(a.Criteria)+1)
	for k, v := range a.Criteria {
		criteria[k] = v
	}
	criteria[name] = value
	return a.Spec_WithCriteriaValues(&criteria)
}

func Spec_CriteriaValuesRange(alternatives *[]AlternativeWithCriteria, criterion *Criterion) *utils.ValueRange {
	if criterion.ValuesRange != nil {
		return criterion.ValuesRange
	}
	valRange := utils.Spec_NewValueRange()
	for i, a := range *alternatives {
		value := a.Spec_CriterionRawValue(criterion)
		if i == 0 {
			valRange.Max = value
			valRange.Min = value
		} else {
			if valRange.Min > value {
				valRange.Min = value
			}
			if valRange.Max < value {
				valRange.Max = value
			}
		}
	}
	return valRange
}

func Spec_PreserveCriteriaForAlternatives(alternatives *[]AlternativeWithCriteria, criteria *Criteria) *[]AlternativeWithCriteria {
	result := make([]AlternativeWithCriteria, len(*alternatives))
	for i, a := range *alternatives {
		result[i] = *a.Spec_WithCriteriaOnly(criteria)
	}
	return &result
}

func (r *AlternativesRanking) Spec_ReverseOrder() {
	for i, j := 0, len(*r)-1; i < j; i, j = i+1, j-1 {
		(*r)[i], (*r)[j] = (*r)[j], (*r)[i]
	}
}

func Spec_RemoveAlternative(alternatives []AlternativeWithCriteria, alternative AlternativeWithCriteria) []AlternativeWithCriteria {
	for i, v := range alternatives {
		if v.Id == alternative.Id {
			return append(alternatives[:i], alternatives[i+1:]...)
		}
	}
	return alternatives
}

func Spec_RemoveAlternativeAt(alternatives []AlternativeWithCriteria, index int) []AlternativeWithCriteria {
	return append(alternatives[:index], alternatives[index+1:]...)
}
