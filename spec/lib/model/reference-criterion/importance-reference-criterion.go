package reference_criterion

import (
	"github.com/Azbesciak/RealDecisionMaker/lib/model"
)

func (i *ImportanceRatioReferenceCriterionProvider) Spec_Provide(rankedCriteria *model.WeightedCriteria) *model.Criterion {
	total := 0.0
	for _, c := range *rankedCriteria {
		total += c.Weight
	}
	expectedWeight := i.NewCriterionImportance * total
	return FindCriterionInRange(rankedCriteria, expectedWeight)
}

func (i *ImportanceRatioReferenceCriterionManager) Spec_Identifier() string {
	return ImportanceRatioReferenceCriterion
}

func (i *ImportanceRatioReferenceCriterionManager) Spec_NewProvider() ReferenceCriterionProvider {
	return &ImportanceRatioReferenceCriterionProvider{}
}
