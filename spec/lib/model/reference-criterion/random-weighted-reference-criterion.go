// Reference implementation (specification) for the RealDecisionMaker verification framework.
//
// This file is NOT part of the repository build. The analyzer (/verif/analyzer) loads it as an
// in-memory overlay next to the package it describes and compares, statically, the value graph of
// every Spec_X declaration with that of the repository's X (see DESIGN.md, engine E5). Each
// function states what the corresponding repository function has to compute according to
// /verif/properties.jsonl; it was reviewed against the property statements, not generated at
// check time, and it is never executed.

package reference_criterion

import (
	"github.com/Azbesciak/RealDecisionMaker/lib/model"
	"math"
)

func (i *RandomWeightedReferenceCriterionProvider) Spec_Provide(rankedCriteria *model.WeightedCriteria) *model.Criterion {
	minVal := math.MaxFloat64
	for _, c := range *rankedCriteria {
		if c.Weight < minVal {
			minVal = c.Weight
		}
	}
	mappedWeights := make(model.WeightedCriteria, len(*rankedCriteria))
	total := 0.0
	for i, c := range *rankedCriteria {
		weight := minVal / c.Weight
		total += weight
		mappedWeights[i] = model.WeightedCriterion{
			Criterion: c.Criterion,
			Weight:    weight,
		}
	}
	generator := i.generator(i.NewCriterionRandomSeed)
	expectedWeight := generator() * total
	return Spec_FindCriterionInRange(&mappedWeights, expectedWeight)
}

func (i *RandomWeightedReferenceCriterionManager) Spec_Identifier() string {
	return RandomWeightedReferenceCriterion
}

func (i *RandomWeightedReferenceCriterionManager) Spec_NewProvider() ReferenceCriterionProvider {
	return &RandomWeightedReferenceCriterionProvider{
		generator: i.RandomFactory,
	}
}
