package reference_criterion

import (
	"github.com/Azbesciak/RealDecisionMaker/lib/model"
	"math"
)

func (i *RandomWeightedReferenceCriterionProvider) Spec_Provide(rankedCriteria *model.WeightedCriteria) *model.Criterion {
	minVal := math.MaxFloat64
	for _, c := range *rankedCriteria {
		if c.Weight < minVal {
			minVal = c.Weight
		}
	}
	mappedWeights := make(model.WeightedCriteria, len(*rankedCriteria))
	total := 0.0
	for i, c := range *rankedCriteria {
		weight := minVal / c.Weight
		total += weight
		mappedWeights[i] = model.WeightedCriterion{
			Criterion: c.Criterion,
			Weight:    weight,
		}
	}
	generator := i.generator(i.NewCriterionRandomSeed)
	expectedWeight := generator() * total
	return FindCriterionInRange(&mappedWeights, expectedWeight)
}

func (i *RandomWeightedReferenceCriterionManager) Spec_Identifier() string {
	return RandomWeightedReferenceCriterion
}

func (i *RandomWeightedReferenceCriterionManager) Spec_NewProvider() ReferenceCriterionProvider {
	return &RandomWeightedReferenceCriterionProvider{
		generator: i.RandomFactory,
	}
}
