// Reference implementation (specification) for the RealDecisionMaker verification framework.
//
// This file is NOT part of the repository build. The analyzer (/verif/analyzer) loads it as an
// in-memory overlay next to the package it describes and compares, statically, the value graph of
// every Spec_X declaration with that of the repository's X (see DESIGN.md, engine E5). Each
// function states what the corresponding repository function has to compute according to
// /verif/properties.jsonl; it was reviewed against the property statements, not generated at
// check time, and it is never executed.

package reference_criterion

import (
	"fmt"
	"github.com/Azbesciak/RealDecisionMaker/lib/model"
	"github.com/Azbesciak/RealDecisionMaker/lib/utils"
)

func Spec_NewReferenceCriteriaManager(factories []ReferenceCriterionFactory) *ReferenceCriteriaManager {
	return &ReferenceCriteriaManager{factories: factories}
}

func (m *ReferenceCriteriaManager) Spec_ForParams(params *interface{}) ReferenceCriterionProvider {
	if len(m.factories) == 0 {
		panic(fmt.Errorf("no ReferenceCriterionFactory has been declared"))
	}
	referenceType := m.Spec_fetchFactoryTypeFromParams(params)
	factory := m.Spec_factory(&referenceType)
	provider := factory.NewProvider()
	utils.Spec_DecodeToStruct(*params, provider)
	return provider
}

func (m *ReferenceCriteriaManager) Spec_fetchFactoryTypeFromParams(params *interface{}) referenceParamsType {
	referenceType := referenceParamsType{}
	utils.Spec_DecodeToStruct(*params, &referenceType)
	if len(referenceType.ReferenceCriterionType) == 0 {
		referenceType.ReferenceCriterionType = m.factories[0].Identifier()
	}
	return referenceType
}

func (m *ReferenceCriteriaManager) Spec_factory(param *referenceParamsType) ReferenceCriterionFactory {
	for _, f := range m.factories {
		if f.Identifier() == param.ReferenceCriterionType {
			return f
		}
	}
	names := m.Spec_extractFactoriesNames()
	panic(fmt.Errorf("no reference criterion factory found for '%s' in %v", param.ReferenceCriterionType, names))
}

func (m *ReferenceCriteriaManager) Spec_extractFactoriesNames() []string {
	names := make([]string, len(m.factories))
	for i, f := range m.factories {
		names[i] = f.Identifier()
	}
	return names
}

func Spec_FindCriterionInRange(rankedCriteria *model.WeightedCriteria, expectedCumulatedWeight float64) *model.Criterion {
	currentWeight := 0.0
	for _, c := range *rankedCriteria {
		currentWeight += c.Weight
		if currentWeight >= expectedCumulatedWeight {
			return &c.Criterion
		}
	}
	return &(*rankedCriteria)[len(*rankedCriteria)-1].Criterion
}
