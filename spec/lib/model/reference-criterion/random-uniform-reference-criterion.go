package reference_criterion

import (
	"github.com/Azbesciak/RealDecisionMaker/lib/model"
	"math"
)

func (i *RandomUniformReferenceCriterionProvider) Spec_Provide(rankedCriteria *model.WeightedCriteria) *model.Criterion {
	criteriaCount := len(*rankedCriteria)
	generator := i.generator(i.NewCriterionRandomSeed)
	expectedIndex := int(math.Floor(generator() * float64(criteriaCount)))
	return &(*rankedCriteria)[expectedIndex].Criterion
}

func (i *RandomUniformReferenceCriterionManager) Spec_Identifier() string {
	return RandomUniformReferenceCriterion
}

func (i *RandomUniformReferenceCriterionManager) Spec_NewProvider() ReferenceCriterionProvider {
	return &RandomUniformReferenceCriterionProvider{
		generator: i.RandomFactory,
	}
}
