// Reference declarations of the struct types of this package (fields, types and tags as the API documents them).
// Loaded by the analyzer as an in-memory overlay only; see DESIGN.md, engine E5 (rule E5-types).

package reference_criterion

import (
	"github.com/Azbesciak/RealDecisionMaker/lib/utils"
)

type Spec_ImportanceRatioReferenceCriterionProvider struct {
	NewCriterionImportance float64 `json:"newCriterionImportance"`
}

type Spec_ImportanceRatioReferenceCriterionManager struct {
}

type Spec_RandomUniformReferenceCriterionProvider struct {
	NewCriterionRandomSeed int64 `json:"newCriterionRandomSeed"`
	generator              utils.SeededValueGenerator
}

type Spec_RandomUniformReferenceCriterionManager struct {
	RandomFactory utils.SeededValueGenerator
}

type Spec_RandomWeightedReferenceCriterionProvider struct {
	NewCriterionRandomSeed int64 `json:"newCriterionRandomSeed"`
	generator              utils.SeededValueGenerator
}

type Spec_RandomWeightedReferenceCriterionManager struct {
	RandomFactory utils.SeededValueGenerator
}

type Spec_ReferenceCriteriaManager struct {
	factories []ReferenceCriterionFactory
}

type Spec_referenceParamsType struct {
	ReferenceCriterionType string `json:"referenceCriterionType"`
}
