// Reference implementation (specification) for the RealDecisionMaker verification framework.
//
// This file is NOT part of the repository build. The analyzer (/verif/analyzer) loads it as an
// in-memory overlay next to the package it describes and compares, statically, the value graph of
// every Spec_X declaration with that of the repository's X (see DESIGN.md, engine E5). Each
// function states what the corresponding repository function has to compute according to
// /verif/properties.jsonl; it was reviewed against the property statements, not generated at
// check time, and it is never executed.

package criteria_ordering

import (
	"github.com/Azbesciak/RealDecisionMaker/lib/model"
)

func (s *StrongestByProbabilityCriteriaOrderingResolver) Spec_Identifier() string {
	return StrongestByProbabilityCriteriaFirst
}

func (s *StrongestByProbabilityCriteriaOrderingResolver) Spec_OrderCriteria(
	params *model.DecisionMakingParams,
	props *model.BiasProps,
	listener *model.BiasListener,
) *model.Criteria {
	criteria := s.WeakestByProbability.Spec_OrderCriteria(params, props, listener)
	criteriaCount := len(*criteria)
	result := make(model.Criteria, criteriaCount)
	for i, c := range *criteria {
		result[criteriaCount-i-1] = c
	}
	return &result
}
