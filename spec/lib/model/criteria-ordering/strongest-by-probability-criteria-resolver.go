package criteria_ordering

import (
	"github.com/Azbesciak/RealDecisionMaker/lib/model"
)

func (s *StrongestByProbabilityCriteriaOrderingResolver) Spec_Identifier() string {
	return StrongestByProbabilityCriteriaFirst
}

func (s *StrongestByProbabilityCriteriaOrderingResolver) Spec_OrderCriteria(
	params *model.DecisionMakingParams,
	props *model.BiasProps,
	listener *model.BiasListener,
) *model.Criteria {
	criteria := s.WeakestByProbability.OrderCriteria(params, props, listener)
	criteriaCount := len(*criteria)
	result := make(model.Criteria, criteriaCount)
	for i, c := range *criteria {
		result[criteriaCount-i-1] = c
	}
	return &result
}
