// Reference implementation (specification) for the RealDecisionMaker verification framework.
//
// This file is NOT part of the repository build. The analyzer (/verif/analyzer) loads it as an
// in-memory overlay next to the package it describes and compares, statically, the value graph of
// every Spec_X declaration with that of the repository's X (see DESIGN.md, engine E5). Each
// function states what the corresponding repository function has to compute according to
// /verif/properties.jsonl; it was reviewed against the property statements, not generated at
// check time, and it is never executed.

package criteria_ordering

import (
	"fmt"
	"github.com/Azbesciak/RealDecisionMaker/lib/utils"
)

func Spec_Parse(props *interface{}) *CriteriaOrdering {
	parsedProps := CriteriaOrdering{}
	utils.Spec_DecodeToStruct(*props, &parsedProps)
	return &parsedProps
}

func Spec_FetchOrderingResolver(resolvers *[]CriteriaOrderingResolver, resolver *CriteriaOrdering) CriteriaOrderingResolver {
	if len(resolver.Ordering) == 0 {
		return (*resolvers)[0]
	}
	for _, r := range *resolvers {
		if r.Identifier() == resolver.Ordering {
			return r
		}
	}
	names := make([]string, len(*resolvers))
	for i, r := range *resolvers {
		names[i] = r.Identifier()
	}
	panic(fmt.Errorf("ordering resolver '%s' not found in %v", resolver, names))
}
