package criteria_ordering

import (
	"fmt"
	"github.com/Azbesciak/RealDecisionMaker/lib/utils"
)

func Spec_Parse(props *interface{}) *CriteriaOrdering {
	parsedProps := CriteriaOrdering{}
	utils.DecodeToStruct(*props, &parsedProps)
	return &parsedProps
}

func Spec_FetchOrderingResolver(resolvers *[]CriteriaOrderingResolver, resolver *CriteriaOrdering) CriteriaOrderingResolver {
	if len(resolver.Ordering) == 0 {
		return (*resolvers)[0]
	}
	for _, r := range *resolvers {
		if r.Identifier() == resolver.Ordering {
			return r
		}
	}
	names := make([]string, len(*resolvers))
	for i, r := range *resolvers {
		names[i] = r.Identifier()
	}
	panic(fmt.Errorf("ordering resolver '%s' not found in %v", resolver, names))
}
