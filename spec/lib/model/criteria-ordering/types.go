// Reference declarations of the struct types of this package (fields, types and tags as the API documents them).
// Loaded by the analyzer as an in-memory overlay only; see DESIGN.md, engine E5 (rule E5-types).

package criteria_ordering

import (
	"github.com/Azbesciak/RealDecisionMaker/lib/utils"
)

type Spec_CriteriaOrdering struct {
	Ordering string `json:"ordering"`
}

type Spec_RandomCriteriaOrderingResolver struct {
	Generator utils.SeededValueGenerator
}

type Spec_randomProps struct {
	RandomSeed int64 `json:"randomSeed"`
}

type Spec_StrongestByProbabilityCriteriaOrderingResolver struct {
	WeakestByProbability *WeakestByProbabilityCriteriaOrderingResolver
}

type Spec_StrongestCriteriaOrderingResolver struct {
}

type Spec_WeakestByProbabilityCriteriaOrderingResolver struct {
	Generator utils.SeededValueGenerator
}

type Spec_WeakestCriteriaOrderingResolver struct {
}
