package criteria_ordering

import (
	"github.com/Azbesciak/RealDecisionMaker/lib/model"
)

func (w *StrongestCriteriaOrderingResolver) Spec_Identifier() string {
	return StrongestCriteriaFirst
}

func (w *StrongestCriteriaOrderingResolver) Spec_OrderCriteria(
	params *model.DecisionMakingParams,
	_ *model.BiasProps,
	listener *model.BiasListener,
) *model.Criteria {
	ascending := (*listener).RankCriteriaAscending(params).Criteria()
	totalCount := len(*ascending)
	descending := make(model.Criteria, totalCount)
	for i, a := range *ascending {
		descending[totalCount-i-1] = a
	}
	return &descending
}
