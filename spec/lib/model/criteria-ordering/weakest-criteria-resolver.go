package criteria_ordering

import (
	"github.com/Azbesciak/RealDecisionMaker/lib/model"
)

func (w *WeakestCriteriaOrderingResolver) Spec_Identifier() string {
	return WeakestCriteriaFirst
}

func (w *WeakestCriteriaOrderingResolver) Spec_OrderCriteria(
	params *model.DecisionMakingParams,
	_ *model.BiasProps,
	listener *model.BiasListener,
) *model.Criteria {
	return (*listener).RankCriteriaAscending(params).Criteria()
}
