// Reference implementation (specification) for the RealDecisionMaker verification framework.
//
// This file is NOT part of the repository build. The analyzer (/verif/analyzer) loads it as an
// in-memory overlay next to the package it describes and compares, statically, the value graph of
// every Spec_X declaration with that of the repository's X (see DESIGN.md, engine E5). Each
// function states what the corresponding repository function has to compute according to
// /verif/properties.jsonl; it was reviewed against the property statements, not generated at
// check time, and it is never executed.

package criteria_ordering

import (
	"github.com/Azbesciak/RealDecisionMaker/lib/model"
)

func (w *WeakestCriteriaOrderingResolver) Spec_Identifier() string {
	return WeakestCriteriaFirst
}

func (w *WeakestCriteriaOrderingResolver) Spec_OrderCriteria(
	params *model.DecisionMakingParams,
	_ *model.BiasProps,
	listener *model.BiasListener,
) *model.Criteria {
	return (*listener).RankCriteriaAscending(params).Spec_Criteria()
}
