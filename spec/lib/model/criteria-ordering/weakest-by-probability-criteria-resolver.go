// Reference implementation (specification) for the RealDecisionMaker verification framework.
//
// This file is NOT part of the repository build. The analyzer (/verif/analyzer) loads it as an
// in-memory overlay next to the package it describes and compares, statically, the value graph of
// every Spec_X declaration with that of the repository's X (see DESIGN.md, engine E5). Each
// function states what the corresponding repository function has to compute according to
// /verif/properties.jsonl; it was reviewed against the property statements, not generated at
// check time, and it is never executed.

package criteria_ordering

import (
	"github.com/Azbesciak/RealDecisionMaker/lib/model"
)

func (w *WeakestByProbabilityCriteriaOrderingResolver) Spec_Identifier() string {
	return WeakestByProbabilityCriteriaFirst
}

func (w *WeakestByProbabilityCriteriaOrderingResolver) Spec_OrderCriteria(
	params *model.DecisionMakingParams,
	props *model.BiasProps,
	listener *model.BiasListener,
) *model.Criteria {
	parsedProps := Spec_parseRandomOrderingProps(props)
	generator := w.Generator(parsedProps.RandomSeed)
	sorted := *(*listener).RankCriteriaAscending(params)
	totalLen := len(sorted)
	result := make(model.Criteria, totalLen)
	if totalLen == 0 {
		return &result
	}
	minWeight := sorted[0].Weight
	maxWeight := sorted[totalLen-1].Weight
	dif := 0.0
	if minWeight <= 1 {
		dif = 1 - minWeight
		minWeight = 1
		maxWeight += dif
	}
	total := 0.0
	for i, s := range sorted {
		tempWeight := s.Weight + dif
		weight := minWeight / tempWeight
		total += weight
		sorted[i].Weight = weight
	}
criterionFind:
	for resultPosition := range result {
		if resultPosition == totalLen-1 {
			result[resultPosition] = sorted[0].Criterion
		}
		randomWeight := generator() * total
		current := 0.0
		for i, c := range sorted {
			current += c.Weight
			if current >= randomWeight {
				result[resultPosition] = c.Criterion
				sorted = append(sorted[:i], sorted[i+1:]...)
				total -= c.Weight
				continue criterionFind
			}
		}
		lastCriterionIndex := totalLen - resultPosition - 1
		lastCriterion := sorted[lastCriterionIndex]
		result[resultPosition] = lastCriterion.Criterion
		sorted = sorted[:len(sorted)-1]
		total -= lastCriterion.Weight
	}
	return &result
}
