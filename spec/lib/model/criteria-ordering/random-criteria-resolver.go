// Reference implementation (specification) for the RealDecisionMaker verification framework.
//
// This file is NOT part of the repository build. The analyzer (/verif/analyzer) loads it as an
// in-memory overlay next to the package it describes and compares, statically, the value graph of
// every Spec_X declaration with that of the repository's X (see DESIGN.md, engine E5). Each
// function states what the corresponding repository function has to compute according to
// /verif/properties.jsonl; it was reviewed against the property statements, not generated at
// check time, and it is never executed.

package criteria_ordering

import (
	"github.com/Azbesciak/RealDecisionMaker/lib/model"
	"github.com/Azbesciak/RealDecisionMaker/lib/utils"
)

func (w *RandomCriteriaOrderingResolver) Spec_Identifier() string {
	return RandomCriteria
}

func (w *RandomCriteriaOrderingResolver) Spec_OrderCriteria(
	params *model.DecisionMakingParams,
	props *model.BiasProps,
	_ *model.BiasListener,
) *model.Criteria {
	parsedProps := Spec_parseRandomOrderingProps(props)
	generator := w.Generator(parsedProps.RandomSeed)
	return Spec_shuffleCriteria(&params.Criteria, generator)
}

func Spec_parseRandomOrderingProps(props *model.BiasProps) *randomProps {
	parsedProps := randomProps{}
	utils.Spec_DecodeToStruct(*props, &parsedProps)
	return &parsedProps
}

func Spec_shuffleCriteria(criteria *model.Criteria, generator utils.ValueGenerator) *model.Criteria {
	criteriaCount := len(*criteria)
	copied := make(model.Criteria, criteriaCount)
	copy(copied, *criteria)
	for i := criteriaCount - 1; i > 0; i-- { // Fisher–Yates shuffle
		j := int(generator() * float64(i))
		copied[i], copied[j] = copied[j], copied[i]
	}
	return &copied
}
