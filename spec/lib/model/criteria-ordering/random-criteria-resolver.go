package criteria_ordering

import (
	"github.com/Azbesciak/RealDecisionMaker/lib/model"
	"github.com/Azbesciak/RealDecisionMaker/lib/utils"
)

func (w *RandomCriteriaOrderingResolver) Spec_Identifier() string {
	return RandomCriteria
}

func (w *RandomCriteriaOrderingResolver) Spec_OrderCriteria(
	params *model.DecisionMakingParams,
	props *model.BiasProps,
	_ *model.BiasListener,
) *model.Criteria {
	parsedProps := parseRandomOrderingProps(props)
	generator := w.Generator(parsedProps.RandomSeed)
	return shuffleCriteria(&params.Criteria, generator)
}

func Spec_parseRandomOrderingProps(props *model.BiasProps) *randomProps {
	parsedProps := randomProps{}
	utils.DecodeToStruct(*props, &parsedProps)
	return &parsedProps
}

func Spec_shuffleCriteria(criteria *model.Criteria, generator utils.ValueGenerator) *model.Criteria {
	criteriaCount := len(*criteria)
	copied := make(model.Criteria, criteriaCount)
	copy(copied, *criteria)
	for i := criteriaCount - 1; i > 0; i-- { // Fisher–Yates shuffle
		j := int(generator() * float64(i))
		copied[i], copied[j] = copied[j], copied[i]
	}
	return &copied
}
