// Reference declarations of the struct types of this package (fields, types and tags as the API documents them).
// Loaded by the analyzer as an in-memory overlay only; see DESIGN.md, engine E5 (rule E5-types).

package model

import (
	"github.com/Azbesciak/RealDecisionMaker/lib/utils"
)

type Spec_AlternativeResult struct {
	Alternative AlternativeWithCriteria `json:"alternative"`
	Evaluation  interface{}             `json:"evaluation"`
}

type Spec_EvaluationSingleValue struct {
	Value float64 `json:"value"`
}

type Spec_AlternativeWithCriteria struct {
	Id       Alternative `json:"id"`
	Criteria Weights     `json:"criteria"`
}

type Spec_AlternativesRankEntry struct {
	AlternativeResult
	BetterThanOrSameAs Alternatives `json:"betterThanOrSameAs"` // preference >=
}

type Spec_BiasListeners struct {
	Listeners []BiasListener
}

type Spec_BiasParams struct {
	Name             string    `json:"name"`
	Disabled         bool      `json:"disabled"`
	ApplyProbability float64   `json:"applyProbability"`
	Props            BiasProps `json:"props"`
}

type Spec_BiasWithProps struct {
	Bias  *Bias       `json:"bias"`
	Props *BiasParams `json:"props"`
}

type Spec_BiasedResult struct {
	DMP   *DecisionMakingParams `json:"dm"`
	Props BiasProps             `json:"props"`
}

type Spec_Criterion struct {
	Id          string            `json:"id"`
	Type        CriterionType     `json:"type"`
	ValuesRange *utils.ValueRange `json:"valuesRange,omitempty"`
}

type Spec_WeightedCriterion struct {
	Criterion
	Weight Weight `json:"weight"`
}

type Spec_WeightType struct {
	Weights Weights `json:"weights"`
}

type Spec_DecisionMaker struct {
	PreferenceFunction  string                    `json:"preferenceFunction"`
	Biases              BiasesParams              `json:"biases"`
	BiasApplyRandomSeed int64                     `json:"biasApplyRandomSeed"`
	KnownAlternatives   []AlternativeWithCriteria `json:"knownAlternatives"`
	ChoseToMake         []Alternative             `json:"choseToMake"`
	Criteria            Criteria                  `json:"criteria"`
	MethodParameters    RawMethodParameters       `json:"methodParameters"`
}

type Spec_DecisionMakingParams struct {
	NotConsideredAlternatives []AlternativeWithCriteria
	ConsideredAlternatives    []AlternativeWithCriteria
	Criteria                  Criteria
	MethodParameters          interface{}
}

type Spec_DecisionMakerChoice struct {
	Result AlternativesRanking `json:"result"`
	Biases BiasesParams        `json:"biases"`
}

type Spec_PreferenceFunctions struct {
	Functions []PreferenceFunction `json:"functions"`
}

type Spec_namedWeight struct {
	name   string
	weight Weight
}
