// Reference implementation (specification) for the RealDecisionMaker verification framework.
//
// This file is NOT part of the repository build. The analyzer (/verif/analyzer) loads it as an
// in-memory overlay next to the package it describes and compares, statically, the value graph of
// every Spec_X declaration with that of the repository's X (see DESIGN.md, engine E5). Each
// function states what the corresponding repository function has to compute according to
// /verif/properties.jsonl; it was reviewed against the property statements, not generated at
// check time, and it is never executed.

package model

import (
	"fmt"
	"github.com/Azbesciak/RealDecisionMaker/lib/utils"
)

func Spec_AsBiasesMap(h *Biases) *BiasMap {
	result := make(BiasMap, len(*h))
	for _, bias := range *h {
		result[bias.Identifier()] = bias
	}
	return &result
}

func Spec_ChooseBiases(available *BiasMap, choose *BiasesParams) *BiasesWithProps {
	var result BiasesWithProps
	for _, props := range *choose {
		biasParams := BiasParams{ApplyProbability: 1}
		utils.Spec_DecodeToStruct(props, &biasParams)
		if biasParams.Disabled {
			continue
		}
		bias, ok := (*available)[biasParams.Name]
		if !ok {
			var keys []string
			for k := range *available {
				keys = append(keys, k)
			}
			panic(fmt.Errorf("bias '%s' not found, available are '%s'", biasParams.Name, keys))
		}
		result = append(result, BiasWithProps{Bias: &bias, Props: &biasParams})
	}
	return &result
}

func Spec_UpdateBiasesProps(oldProps *BiasParams, update BiasProps) *BiasParams {
	return &BiasParams{
		Name:             oldProps.Name,
		ApplyProbability: oldProps.ApplyProbability,
		Props:            update,
	}
}
