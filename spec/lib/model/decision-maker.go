// Reference implementation (specification) for the RealDecisionMaker verification framework.
//
// This file is NOT part of the repository build. The analyzer (/verif/analyzer) loads it as an
// in-memory overlay next to the package it describes and compares, statically, the value graph of
// every Spec_X declaration with that of the repository's X (see DESIGN.md, engine E5). Each
// function states what the corresponding repository function has to compute according to
// /verif/properties.jsonl; it was reviewed against the property statements, not generated at
// check time, and it is never executed.

package model

import (
	"fmt"
	"github.com/Azbesciak/RealDecisionMaker/lib/utils"
	"strings"
)

func (p *DecisionMakingParams) Spec_AllAlternatives() []AlternativeWithCriteria {
	all := make([]AlternativeWithCriteria, 0, len(p.ConsideredAlternatives)+len(p.NotConsideredAlternatives))
	all = append(all, p.ConsideredAlternatives...)
	return append(all, p.NotConsideredAlternatives...)
}

func (dm *DecisionMaker) Spec_Alternative(id Alternative) AlternativeWithCriteria {
	return Spec_FetchAlternative(&dm.KnownAlternatives, id)
}

func Spec_UpdateAlternatives(old *[]AlternativeWithCriteria, newOnes *[]AlternativeWithCriteria) *[]AlternativeWithCriteria {
	res := make([]AlternativeWithCriteria, len(*old))
	for i, a := range *old {
		res[i] = Spec_FetchAlternative(newOnes, a.Id)
	}
	return &res
}

func Spec_FetchAlternative(a *[]AlternativeWithCriteria, id Alternative) AlternativeWithCriteria {
	for _, a := range *a {
		if a.Id == id {
			return a
		}
	}
	panic(fmt.Errorf("alternative '%s' is unknown", id))
}

func (dm *DecisionMaker) Spec_AlternativesToConsider() *[]AlternativeWithCriteria {
	return Spec_FetchAlternatives(&dm.KnownAlternatives, &dm.ChoseToMake)
}

func Spec_FetchAlternatives(a *[]AlternativeWithCriteria, ids *[]Alternative) *[]AlternativeWithCriteria {
	results := make([]AlternativeWithCriteria, len(*ids))
	for i, id := range *ids {
		results[i] = Spec_FetchAlternative(a, id)
	}
	return &results
}

func (dm *DecisionMaker) Spec_MakeDecision(
	preferenceFunctions PreferenceFunctions,
	biasListeners BiasListeners,
	availableBiases *BiasMap,
	biasApplyProbGenerator utils.SeededValueGenerator,
) *DecisionMakerChoice {
	if Spec_IsStringBlank(&dm.PreferenceFunction) {
		panic(fmt.Errorf("preference function must not be empty"))
	}
	dm.Criteria.Spec_Validate()
	dm.Spec_validateAlternatives()
	preferenceFunction := preferenceFunctions.Spec_Fetch(dm.PreferenceFunction)
	params := dm.Spec_prepareParams(preferenceFunction)
	chosenBiases := Spec_ChooseBiases(availableBiases, &dm.Biases)
	processedParams, biasesProps := dm.Spec_processBiases(chosenBiases, params, &biasListeners, biasApplyProbGenerator)
	res := (*preferenceFunction).Evaluate(processedParams)
	return &DecisionMakerChoice{*res, *biasesProps}
}

func (dm *DecisionMaker) Spec_validateAlternatives() {
	for i, a := range dm.KnownAlternatives {
		for _, c := range dm.Criteria {
			_, ok := a.Criteria[c.Id]
			if !ok {
				panic(fmt.Errorf("value of criterion '%s' not found for alternative %d '%s'", c.Id, i, a.Id))
			}
		}
	}
}

func (dm *DecisionMaker) Spec_prepareParams(preferenceFunction *PreferenceFunction) *DecisionMakingParams {
	return &DecisionMakingParams{
		NotConsideredAlternatives: *dm.Spec_NotConsideredAlternatives(),
		ConsideredAlternatives:    *dm.Spec_AlternativesToConsider(),
		Criteria:                  dm.Criteria,
		MethodParameters:          (*preferenceFunction).ParseParams(dm),
	}
}

func (dm *DecisionMaker) Spec_NotConsideredAlternatives() *[]AlternativeWithCriteria {
	var result []AlternativeWithCriteria
	for _, a := range dm.KnownAlternatives {
		if !utils.Spec_ContainsString(&dm.ChoseToMake, &a.Id) {
			result = append(result, a)
		}
	}
	return &result
}

func (dm *DecisionMaker) Spec_processBiases(
	biases *BiasesWithProps,
	params *DecisionMakingParams,
	listeners *BiasListeners,
	biasApplyProbGenerator utils.SeededValueGenerator,
) (*DecisionMakingParams, *BiasesParams) {
	biasesToProcessCount := len(*biases)
	result := make(BiasesParams, biasesToProcessCount)
	current := params
	if biasesToProcessCount == 0 {
		return current, &result
	}
	listener := listeners.Spec_Fetch(dm.PreferenceFunction)
	generator := biasApplyProbGenerator(dm.BiasApplyRandomSeed)
	for i, h := range *biases {
		// check for >=1 omitted to keep results independence when other changes
		if h.Props.ApplyProbability > generator() {
			res := (*h.Bias).Apply(params, current, &h.Props.Props, listener)
			current = res.DMP
			result[i] = *Spec_UpdateBiasesProps(h.Props, res.Props)
		} else {
			result[i] = *Spec_UpdateBiasesProps(h.Props, nil)
		}
	}
	return current, &result
}

func Spec_IsStringBlank(str *string) bool {
	return len(strings.TrimSpace(*str)) == 0
}
