// Reference implementation (specification) for the RealDecisionMaker verification framework.
//
// This file is NOT part of the repository build. The analyzer (/verif/analyzer) loads it as an
// in-memory overlay next to the package it describes and compares, statically, the value graph of
// every Spec_X declaration with that of the repository's X (see DESIGN.md, engine E5). Each
// function states what the corresponding repository function has to compute according to
// /verif/properties.jsonl; it was reviewed against the property statements, not generated at
// check time, and it is never executed.

package model

import (
	"fmt"
	"github.com/Azbesciak/RealDecisionMaker/lib/utils"
)

func (pf *BiasListeners) Spec_Get(index int) utils.Identifiable {
	return pf.Listeners[index]
}

func (pf *BiasListeners) Spec_Len() int {
	return len(pf.Listeners)
}

func (pf *BiasListeners) Spec_Fetch(listenerName string) *BiasListener {
	preferenceFunMap := utils.Spec_AsMap(pf)
	fun, ok := (*preferenceFunMap)[listenerName]
	if !ok {
		var keys []string
		for _, k := range pf.Listeners {
			keys = append(keys, k.Identifier())
		}
		panic(fmt.Errorf("bias listener for '%s' not found, available are '%s'", listenerName, keys))
	}
	listener := fun.(BiasListener)
	return &listener
}

func Spec_PrepareCumulatedWeightsMap(
	params *DecisionMakingParams,
	mapper func(criterion string, value Weight) Weight,
) *Weights {
	weights := make(Weights, len(params.Criteria))
	for _, c := range params.Criteria {
		weights[c.Id] = 0
	}
	// C04: summed in the order of the alternatives' ids, so that the importance of a criterion does not depend on the
	// order the alternatives are listed in (a floating point sum depends on the order of its terms)
	for _, a := range *Spec_SortAlternativesByName(&params.ConsideredAlternatives) {
		for crit, v := range a.Criteria {
			// C15/C07: only declared criteria have an importance; extra values of an alternative are ignored
			if w, declared := weights[crit]; declared {
				weights[crit] = w + mapper(crit, v)
			}
		}
	}
	return &weights
}

func Spec_WeightIdentity(criterion string, value Weight) Weight {
	return value
}

func Spec_NewCriterionValue(previousWeights *Weights, baseCriterion *Criterion, generator *utils.ValueGenerator) Weight {
	weight := (*previousWeights)[baseCriterion.Spec_Identifier()]
	return (*generator)() * weight
}
