// Reference declarations of the struct types of this package (fields, types and tags as the API documents them).
// Loaded by the analyzer as an in-memory overlay only; see DESIGN.md, engine E5 (rule E5-types).

package main

type Spec_requestError struct {
	Error   interface{} `json:"error"`
	Request interface{} `json:"request"`
}

type Spec_requestSuccess struct {
	Request  interface{} `json:"request"`
	Response interface{} `json:"response"`
}
