// Reference implementation (specification) for the RealDecisionMaker verification framework.
//
// This file is NOT part of the repository build. The analyzer (/verif/analyzer) loads it as an
// in-memory overlay next to the package it describes and compares, statically, the value graph of
// every Spec_X declaration with that of the repository's X (see DESIGN.md, engine E5). Each
// function states what the corresponding repository function has to compute according to
// /verif/properties.jsonl; it was reviewed against the property statements, not generated at
// check time, and it is never executed.

package main

import (
	"github.com/Azbesciak/RealDecisionMaker/lib/logic/biases/anchoring"
	"github.com/Azbesciak/RealDecisionMaker/lib/logic/biases/criteria-concealment"
	"github.com/Azbesciak/RealDecisionMaker/lib/logic/biases/criteria-mixing"
	"github.com/Azbesciak/RealDecisionMaker/lib/logic/biases/criteria-omission"
	"github.com/Azbesciak/RealDecisionMaker/lib/logic/biases/fatigue"
	"github.com/Azbesciak/RealDecisionMaker/lib/logic/biases/preference-reversal"
	"github.com/Azbesciak/RealDecisionMaker/lib/logic/limited-rationality/aspect-elimination"
	"github.com/Azbesciak/RealDecisionMaker/lib/logic/limited-rationality/majority"
	"github.com/Azbesciak/RealDecisionMaker/lib/logic/limited-rationality/satisfaction"
	"github.com/Azbesciak/RealDecisionMaker/lib/logic/limited-rationality/satisfaction-levels"
	"github.com/Azbesciak/RealDecisionMaker/lib/logic/preference-func/choquet"
	"github.com/Azbesciak/RealDecisionMaker/lib/logic/preference-func/electreIII"
	"github.com/Azbesciak/RealDecisionMaker/lib/logic/preference-func/owa"
	"github.com/Azbesciak/RealDecisionMaker/lib/logic/preference-func/weighted-sum"
	"github.com/Azbesciak/RealDecisionMaker/lib/model"
	"github.com/Azbesciak/RealDecisionMaker/lib/model/criteria-ordering"
	"github.com/Azbesciak/RealDecisionMaker/lib/model/reference-criterion"
	"github.com/Azbesciak/RealDecisionMaker/lib/utils"
	"github.com/gin-gonic/gin"
	"github.com/go-errors/errors"
	"log"
	"net/http"
	"sync"
)

func Spec_Make(f LazyFunctions) LazyFunctions {
	var v *utils.Map
	var once sync.Once
	return func() *utils.Map {
		once.Do(func() {
			v = f()
			f = nil
		})
		return v
	}
}

func Spec_decideHandler(c *gin.Context) {
	var dm model.DecisionMaker
	if err := c.ShouldBindJSON(&dm); err != nil {
		Spec_writeError(err, &dm, c)
		return
	}
	defer func() {
		if e := recover(); e != nil {
			Spec_writeError(e, &dm, c)
		}
	}()
	decision := dm.Spec_MakeDecision(funcs, biasListeners, &biases, utils.Spec_RandomBasedSeedValueGenerator)
	log.Printf("%#v", requestSuccess{dm, *decision})
	Spec_writeJSON(decision, c)
}

func Spec_writeError(e interface{}, dm *model.DecisionMaker, c *gin.Context) {
	log.Println(errors.Wrap(e, 1).ErrorStack())
	switch v := e.(type) {
	case error:
		e = v.Error()
	}
	err := requestError{
		Error:   e,
		Request: dm,
	}
	c.JSON(http.StatusBadRequest, err)
}

func Spec_writeJSON(data interface{}, c *gin.Context) {
	c.JSON(http.StatusOK, data)
}

func Spec_functionsHandler(c *gin.Context) {
	c.JSON(http.StatusOK, funcRequirements())
}

var Spec_increasingSatisfactionLevels = []satisfaction_levels.SatisfactionLevelsSource{
	&satisfaction_levels.IdealIncreasingMulCoefficientSatisfaction,
	&satisfaction_levels.IdealAdditiveCoefficientSatisfaction,
	&satisfaction_levels.IncreasingThresholds,
}

var Spec_decreasingSatisfactionLevels = []satisfaction_levels.SatisfactionLevelsSource{
	&satisfaction_levels.IdealDecreasingMulCoefficientSatisfaction,
	&satisfaction_levels.IdealSubtrCoefficientSatisfaction,
	&satisfaction_levels.DecreasingThresholds,
}

var Spec_decreasingSatisfactionLevelsUpdates = satisfaction_levels.SatisfactionLevelsUpdateListeners{
	Listeners: satisfaction_levels.ListenersMap{
		satisfaction_levels.Thresholds:         &satisfaction_levels.DecreasingThresholds,
		satisfaction_levels.IdealDecreasingMul: &satisfaction_levels.IdealDecreasingMulCoefficientSatisfaction,
		satisfaction_levels.IdealSubtractive:   &satisfaction_levels.IdealSubtrCoefficientSatisfaction,
	},
}

var Spec_increasingSatisfactionLevelsUpdates = satisfaction_levels.SatisfactionLevelsUpdateListeners{
	Listeners: satisfaction_levels.ListenersMap{
		satisfaction_levels.Thresholds:         &satisfaction_levels.IncreasingThresholds,
		satisfaction_levels.IdealIncreasingMul: &satisfaction_levels.IdealIncreasingMulCoefficientSatisfaction,
		satisfaction_levels.IdealAdditive:      &satisfaction_levels.IdealAdditiveCoefficientSatisfaction,
	},
}

var Spec_funcs = model.PreferenceFunctions{
	Functions: []model.PreferenceFunction{
		&weighted_sum.WeightedSumPreferenceFunc{},
		&owa.OWAPreferenceFunc{},
		&electreIII.ElectreIIIPreferenceFunc{},
		&choquet.ChoquetIntegralPreferenceFunc{},
		aspect_elimination.Spec_NewAspectEliminationHeuristic(increasingSatisfactionLevels, utils.Spec_RandomBasedSeedValueGenerator),
		majority.Spec_NewMajority(utils.Spec_RandomBasedSeedValueGenerator, []majority.DrawResolver{
			&majority.DrawAllowedResolver{},
			&majority.CurrentIsWinnerDrawResolver{},
			&majority.NewerIsWinnerResolver{},
			&majority.RandomWinnerResolver{},
		}),
		satisfaction.Spec_NewSatisfaction(utils.Spec_RandomBasedSeedValueGenerator, decreasingSatisfactionLevels),
	},
}

var Spec_biasListeners = model.BiasListeners{
	Listeners: []model.BiasListener{
		&weighted_sum.WeightedSumBiasListener{},
		&owa.OwaBiasListener{},
		&electreIII.ElectreIIIBiasLIstener{},
		&choquet.ChoquetIntegralBiasListener{},
		aspect_elimination.Spec_NewAspectEliminationBiasListener(increasingSatisfactionLevelsUpdates),
		&majority.MajorityBiasListener{},
		satisfaction.Spec_NewSatisfactionBiasListener(decreasingSatisfactionLevelsUpdates),
	},
}

var Spec_referenceCriterionManager = *reference_criterion.Spec_NewReferenceCriteriaManager(
	[]reference_criterion.ReferenceCriterionFactory{
		&reference_criterion.ImportanceRatioReferenceCriterionManager{},
		&reference_criterion.RandomUniformReferenceCriterionManager{
			RandomFactory: utils.Spec_RandomBasedSeedValueGenerator,
		},
		&reference_criterion.RandomWeightedReferenceCriterionManager{
			RandomFactory: utils.Spec_RandomBasedSeedValueGenerator,
		},
	},
)

var Spec_criteriaOrdering = []criteria_ordering.CriteriaOrderingResolver{
	&criteria_ordering.WeakestCriteriaOrderingResolver{},
	&criteria_ordering.StrongestCriteriaOrderingResolver{},
	&criteria_ordering.RandomCriteriaOrderingResolver{
		Generator: utils.Spec_RandomBasedSeedValueGenerator,
	},
	&criteria_ordering.WeakestByProbabilityCriteriaOrderingResolver{
		Generator: utils.Spec_RandomBasedSeedValueGenerator,
	},
	&criteria_ordering.StrongestByProbabilityCriteriaOrderingResolver{
		WeakestByProbability: &criteria_ordering.WeakestByProbabilityCriteriaOrderingResolver{
			Generator: utils.Spec_RandomBasedSeedValueGenerator,
		},
	},
}

var Spec_biases = model.BiasMap{
	anchoring.BiasName: anchoring.Spec_NewAnchoring(
		[]anchoring.AnchoringEvaluator{
			&anchoring.LinearAnchoringEvaluator{},
			&anchoring.ExpFromZeroAnchoringEvaluator{},
		},
		[]anchoring.ReferencePointsEvaluator{
			&anchoring.IdealReferenceAlternativeEvaluator{},
			&anchoring.NadirReferenceAlternativeEvaluator{},
		},
		[]anchoring.AnchoringApplier{
			&anchoring.InlineAnchoringApplier{},
			anchoring.Spec_NewNewCriterionAnchoringApplier(
				utils.Spec_RandomBasedSeedValueGenerator,
				referenceCriterionManager,
			),
		},
	),
	criteria_concealment.BiasName: criteria_concealment.Spec_NewCriteriaConcealment(
		utils.Spec_RandomBasedSeedValueGenerator,
		referenceCriterionManager,
	),
	criteria_mixing.BiasName: criteria_mixing.Spec_NewCriteriaMixing(
		utils.Spec_RandomBasedSeedValueGenerator,
		referenceCriterionManager,
	),
	preference_reversal.BiasName: preference_reversal.Spec_NewPreferenceReversal(criteriaOrdering),
	criteria_omission.BiasName:   criteria_omission.Spec_NewCriteriaOmission(criteriaOrdering),
	fatigue.BiasName: fatigue.Spec_NewFatigue(
		utils.Spec_RandomBasedSeedValueGenerator,
		utils.Spec_RandomBasedSeedValueGenerator,
		[]fatigue.FatigueFunction{
			&fatigue.ExponentialFromZeroFatigue{},
			&fatigue.ConstFatigueFunction{},
		},
	),
}

var Spec_funcRequirements = Spec_Make(func() *utils.Map {
	return funcs.Spec_FetchParameters()
})
