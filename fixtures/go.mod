module fixtures

go 1.12
