// Package fx holds the positive controls of the checker: tiny functions that contain exactly one
// seeded violation of one rule (Bad*) next to clean twins (Ok*). Every run of rdmcheck analyses this
// package with the same engines first and requires each Bad* to be reported and each Ok* to be silent.
// It is its own module and is never linked into /repo.
package fx

import (
	"sort"
	"time"
)

type Weights map[string]float64

type Params struct {
	RandomSeed int64
	Ratio      float64
	Items      []float64
}

type Generator = func() float64
type SeededGenerator = func(seed int64) Generator

func NewGen(seed int64) Generator {
	x := float64(seed)
	return func() float64 {
		x = x / 2
		return x
	}
}

// ---- ND-1
func BadClock(p *Params) int64 { return time.Now().UnixNano() + p.RandomSeed }
func OkNoClock(p *Params) int64 { return p.RandomSeed + 1 }

// ---- ND-2
func BadConstSeed(g SeededGenerator, p *Params) float64 { return g(42)() }
func OkRequestSeed(g SeededGenerator, p *Params) float64 { return g(p.RandomSeed)() }

// ---- ND-3
func BadMapSum(w Weights) float64 {
	total := 0.0
	for _, v := range w {
		total += v
	}
	return total
}

func BadMapFirst(w Weights) string {
	for k := range w {
		return k
	}
	return ""
}

func OkMapCopy(w Weights) Weights {
	out := make(Weights, len(w))
	for k, v := range w {
		out[k] = v * 2
	}
	return out
}

func OkMapSorted(w Weights) []float64 {
	vals := make([]float64, 0, len(w))
	for _, v := range w {
		vals = append(vals, v)
	}
	sort.Float64s(vals)
	return vals
}

// ---- ND-4
var comparisons int

func BadComparator(xs []float64) {
	sort.Slice(xs, func(i, j int) bool {
		comparisons++
		return xs[i] < xs[j]
	})
}

func OkComparator(in []float64) []float64 {
	xs := make([]float64, len(in))
	copy(xs, in)
	sort.Slice(xs, func(i, j int) bool { return xs[i] < xs[j] })
	return xs
}

// ---- SHR-1 / SHR-2
type Levels struct {
	Thresholds []Weights
	index      int
}

type BadSource struct {
	cache Levels
}

type OkSource struct{}

var badRegistry = []*BadSource{{}}
var okRegistry = []*OkSource{{}}

var lastRatio float64

func BadGlobalWrite(p *Params) { lastRatio = p.Ratio }

// seeded: the factory hands out an object stored in the registered singleton
func (s *BadSource) BlankParams() *Levels { return &s.cache }

func (s *OkSource) BlankParams() *Levels { return &Levels{} }

// seeded: writes through the shared object
func BadUseRegistry(p *Params) int {
	l := badRegistry[0].BlankParams()
	l.index++
	return l.index
}

func OkUseFresh(p *Params) int {
	l := okRegistry[0].BlankParams()
	l.index++
	return l.index
}

// ---- OWN-1 / OWN-2
type State struct {
	Items  []float64
	Values map[string]float64
}

// seeded: overwrites an element of the caller's slice
func BadInPlace(s *State) { s.Items[0] = 1 }

func OkCopyThenWrite(s *State) []float64 {
	c := make([]float64, len(s.Items))
	copy(c, s.Items)
	c[0] = 1
	return c
}

// seeded: in-place deletion from the caller's slice
func BadRemoveFirst(s *State) []float64 { return append(s.Items[:0], s.Items[1:]...) }

// seeded: every iteration appends to the same base
func BadForkedAppend(groups [][]string) [][]string {
	var out [][]string
	base := make([]string, 1, 8)
	for _, g := range groups {
		out = append(out, append(base, g...))
	}
	return out
}

func OkPerIterationBase(groups [][]string) [][]string {
	var out [][]string
	for _, g := range groups {
		base := make([]string, 1, 8)
		out = append(out, append(base, g...))
	}
	return out
}

// ---- E5: reference implementations (Spec_) and code that does / does not compute them
func Spec_Clamp(v, lo, hi float64) float64 {
	if v < lo {
		return lo
	}
	if v > hi {
		return hi
	}
	return v
}

// same function up to renaming, mirrored comparisons and early return vs else
func Clamp(value, lower, upper float64) float64 {
	if lower > value {
		return lower
	} else if upper < value {
		return upper
	} else {
		return value
	}
}

func Spec_BadClampStrict(v, lo, hi float64) float64 {
	if v < lo {
		return lo
	}
	if v > hi {
		return hi
	}
	return v
}

// seeded: the lower branch returns the wrong bound
func BadClampStrict(v, lo, hi float64) float64 {
	if v < lo {
		return hi
	}
	if v > hi {
		return hi
	}
	return v
}

func Spec_WeightedTotal(ws, vs []float64) float64 {
	total := 0.0
	for i := range ws {
		total += ws[i] * vs[i]
	}
	return total
}

// same up to loop form, operand order and a temporary
func WeightedTotal(weights, values []float64) float64 {
	sum := 0.0
	for i, w := range weights {
		term := values[i] * w
		sum = sum + term
	}
	return sum
}

func Spec_BadWeightedTotal(ws, vs []float64) float64 {
	total := 0.0
	for i := range ws {
		total += ws[i] * vs[i]
	}
	return total
}

// seeded: the weight factor is dropped
func BadWeightedTotal(ws, vs []float64) float64 {
	total := 0.0
	for i := range ws {
		total += vs[i]
	}
	return total
}

// seeded: both branches are computed up front from the same base (C11-25's shape)
func pushOne(xs [][]string, g []string) [][]string { return append(xs, g) }

func BadTwoAppends(xs [][]string, a, b []string, first bool) [][]string {
	l := pushOne(xs, a)
	r := pushOne(xs, b)
	if first {
		return l
	}
	return r
}

func OkOneAppendPerPath(xs [][]string, a, b []string, first bool) [][]string {
	if first {
		return pushOne(xs, a)
	}
	return pushOne(xs, b)
}

type span struct{ lo, hi float64 }

func keep(s *span, unit bool) *span {
	if unit {
		return s
	}
	return &span{s.lo * 2, s.hi * 2}
}

// seeded: one variable outside the loop, its address retained per element (C17-25's shape)
func BadSharedRange(in []span, unit bool) []*span {
	out := make([]*span, len(in))
	var cur span
	for i, s := range in {
		cur = s
		out[i] = keep(&cur, unit)
	}
	return out
}

func OkOwnRange(in []span, unit bool) []*span {
	out := make([]*span, len(in))
	for i := range in {
		cur := new(span)
		*cur = in[i]
		out[i] = keep(cur, unit)
	}
	return out
}

// seeded: one function literal per element, all reading the same range variable (C14-25's shape)
func BadCapturedLoopVar(in []span) []func() float64 {
	out := make([]func() float64, len(in))
	for i, s := range in {
		out[i] = func() float64 { return s.hi - s.lo }
	}
	return out
}

func OkCapturedCopy(in []span) []func() float64 {
	out := make([]func() float64, len(in))
	for i := range in {
		w := in[i].hi - in[i].lo
		out[i] = func() float64 { return w }
	}
	return out
}
