#!/bin/bash
# revert_fixes.sh: for every `fix:` commit of /repo, reverse-apply it to the working tree (when it still reverts cleanly),
# run every check, undo it. Prints one line per commit: the properties named in its `fixed:` entry of known_findings.txt
# and the properties whose check reported a violation. A repaired defect that returns must be reported by the check of
# (at least one of) the properties it is recorded under.
cd /verif
if [ -n "$(git -C /repo status --porcelain --untracked-files=no)" ]; then echo "/repo has local changes"; exit 2; fi
for c in $(git -C /repo log --format=%h --grep='^fix:' --reverse); do
  entry=$(grep "^fixed: property=[A-Z0-9]* $c" known_findings.txt | head -1)
  props=$(echo "$entry" | sed 's/^fixed: property=\([A-Z0-9]*\).*/\1/')
  also=$(echo "$entry" | grep -o '(also [^)]*)' | tail -1 | tr -d '(),' | sed 's/also//')
  if ! git -C /repo show $c -- lib httpClient | git -C /repo apply -R --check 2>/dev/null; then
    echo "$c: recorded=[$props$also] NOT-REVERTIBLE (later commits changed the same lines)"; continue
  fi
  git -C /repo show $c -- lib httpClient | git -C /repo apply -R
  out=$(bin/rdmcheck -property all -tier quick -fixtures=false 2>&1)
  git -C /repo checkout -- . ; git -C /repo clean -fdq -e httpClient/httpClient
  hits=$(echo "$out" | grep '^VIOLATION' | sed 's/.*property=\([A-Z0-9]*\).*/\1/' | sort -u | tr '\n' ' ')
  own=MISSED; for p in $props $also; do echo " $hits" | grep -q " $p " && own=caught; done
  echo "$c: recorded=[$props$also] own=$own hits=[$hits]"
done
