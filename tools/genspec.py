#!/usr/bin/env python3
"""Skeleton generator for reference implementations (one-off authoring aid, not used by any check):
copies the function declarations of a repository file into a spec file with Spec_ names.
Every generated file is then reviewed and rewritten by hand against the property statements."""
import re, sys, os, subprocess
SKIP = {'String','init','main'}
def pkg_name(path):
    base = '/repo/lib/' + path.split('RealDecisionMaker/lib/')[-1] if 'RealDecisionMaker/lib' in path else None
    if base and os.path.isdir(base):
        for f in sorted(os.listdir(base)):
            if f.endswith('.go') and not f.endswith('_test.go'):
                m = re.search(r'^package (\w+)', open(os.path.join(base, f)).read(), re.M)
                if m: return m.group(1)
    return path.split('/')[-1]

def prune_imports(imp, body):
    keep = []
    for line in imp.splitlines():
        m = re.match(r'^\s*(?:import\s+)?(?:([\w.]+)\s+)?"([^"]+)"\s*$', line)
        if not m: continue
        alias, path = m.group(1), m.group(2)
        if alias == '.':
            keep.append('\t. "%s"' % path); continue
        name = alias or pkg_name(path)
        if re.search(r'\b%s\.' % re.escape(name), body):
            keep.append('\t%s"%s"' % ((alias + ' ') if alias else '', path))
    if not keep: return ''
    return 'import (\n' + '\n'.join(keep) + '\n)\n'

def gen(src, dst):
    s = open(src).read()
    m = re.search(r'^package (\w+)', s, re.M)
    pkg = m.group(1)
    imp = ''
    mi = re.search(r'^import \((.*?)^\)', s, re.M|re.S)
    if mi: imp = 'import (' + mi.group(1) + ')\n'
    else:
        mi = re.search(r'^import .*$', s, re.M)
        if mi: imp = mi.group(0) + '\n'
    out = ['package %s\n' % pkg, imp]
    n = 0
    for fm in re.finditer(r'^func (\([^)]*\) )?(\w+)(\(.*?^\}\n)', s, re.M|re.S):
        recv, name, rest = fm.group(1) or '', fm.group(2), fm.group(3)
        if name in SKIP: continue
        out.append('func %sSpec_%s%s' % (recv, name, rest))
        n += 1
    # package-level variables with initialisers
    lines = s.split('\n')
    i = 0
    while i < len(lines):
        m = re.match(r'^var (\w+)( [^=]*)?= (.*)$', lines[i])
        if m:
            blk = [lines[i]]
            if lines[i].rstrip().endswith(('{', '(')) :
                i += 1
                while i < len(lines) and not re.match(r'^[})]', lines[i]):
                    blk.append(lines[i]); i += 1
                blk.append(lines[i])
            decl = '\n'.join(blk)
            decl = re.sub(r'^var (\w+)', r'var Spec_\1', decl, count=1)
            out.append(decl + '\n')
            n += 1
        i += 1
    if n == 0: return 0
    body = '\n'.join(out[2:])
    out[1] = prune_imports(imp, body)
    os.makedirs(os.path.dirname(dst), exist_ok=True)
    open(dst, 'w').write('\n'.join(out))
    return n
if __name__ == '__main__':
    root = '/repo/lib'
    total = 0
    for d, _, files in os.walk(root):
        if 'testUtils' in d or '/client' in d: continue
        for f in files:
            if not f.endswith('.go') or f.endswith('_test.go'): continue
            src = os.path.join(d, f)
            rel = os.path.relpath(src, '/repo')
            dst = os.path.join(sys.argv[1], rel)
            total += gen(src, dst)
    total += gen('/repo/httpClient/main.go', os.path.join(sys.argv[1], 'httpClient/main.go'))
    print('functions:', total)
