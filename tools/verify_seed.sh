#!/bin/bash
# verify_seed.sh <srcdir> <name>: confirm a seeded change in a scratch worktree of /repo:
#  clean tree: demo passes; with patch: builds, full suite green, demo fails.
# On success copies the change to /verif/seeded/<name>/ with a verification record.
src=$1; name=$2
export GOFLAGS=-mod=mod GOPROXY=off GOSUMDB=off GOTOOLCHAIN=local
wt=/tmp/sv/$name
log=/tmp/sv/$name.log
mkdir -p /tmp/sv; rm -rf $wt; git -C /repo worktree prune
git -C /repo worktree add -q --detach $wt HEAD || { echo "$name: worktree failed"; exit 2; }
cleanup() { git -C /repo worktree remove --force $wt 2>/dev/null; }
trap cleanup EXIT
{
echo "== clean demo"; ( cd $src && timeout 300 bash run_demo.sh $wt ); clean=$?
echo "clean exit=$clean"
git -C $wt checkout -q -- . ; git -C $wt clean -fdq
echo "== apply"; git -C $wt apply $src/patch.diff; ap=$?
echo "apply exit=$ap"
echo "== build+tests"; ( cd $wt/lib && go build ./... && go test -vet=off -count=1 ./... 2>&1 | grep -v '^ok\|no test files' ; exit ${PIPESTATUS[0]} ); 
( cd $wt/lib && go build ./... && go test -vet=off -count=1 ./... >/dev/null 2>&1 ); tests=$?
( cd $wt/httpClient && cp go.mod /tmp/sv/$name.mod && cp go.sum /tmp/sv/$name.sum && echo "replace github.com/Azbesciak/RealDecisionMaker/lib => $wt/lib" >> /tmp/sv/$name.mod && go build -modfile=/tmp/sv/$name.mod -o /dev/null . ); hb=$?
rm -f /tmp/sv/$name.mod /tmp/sv/$name.sum
echo "tests exit=$tests httpbuild=$hb"
echo "== patched demo"; ( cd $src && timeout 300 bash run_demo.sh $wt ); patched=$?
echo "patched exit=$patched"
} > $log 2>&1
nontest=$(grep '^+++ ' $src/patch.diff | grep -c '_test.go')
if [ $clean -eq 0 ] && [ $ap -eq 0 ] && [ $tests -eq 0 ] && [ $hb -eq 0 ] && [ $patched -ne 0 ] && [ $nontest -eq 0 ]; then
  dst=${SEED_DST:-/verif/seeded}/$name; rm -rf $dst; mkdir -p $dst
  cp $src/patch.diff $dst/; cp -r $src/demo $dst/ 2>/dev/null; cp $src/run_demo.sh $dst/
  python3 - "$src/meta.json" "$dst/meta.json" "$name" <<'PY'
import json,sys
try: m=json.load(open(sys.argv[1]))
except Exception as e: m={"meta_error":str(e)}
m["verified_by_verif"]={"what_was_run":"tools/verify_seed.sh: scratch worktree of /repo HEAD; run_demo.sh on the clean tree (exit 0); git apply patch.diff; go build ./... and the full lib suite (green); httpClient build against the patched lib; run_demo.sh on the patched tree (non-zero)","result":"confirmed"}
m["seed_id"]=sys.argv[3]
json.dump(m,open(sys.argv[2],'w'),indent=1)
PY
  echo "$name: CONFIRMED"
else
  echo "$name: REJECTED clean=$clean apply=$ap tests=$tests httpbuild=$hb patched=$patched testfiles=$nontest (log $log)"
fi
