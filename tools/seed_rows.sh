#!/bin/bash
# seed_rows.sh <seed-name...>: like seed_table.sh, for the named seeds only (prints markdown rows with the cross-property hits).
cd /verif
if [ -n "$(git -C /repo status --porcelain --untracked-files=no)" ]; then echo "/repo has local changes"; exit 2; fi
for s in "$@"; do
  prop=${s%%-*}
  git -C /repo apply /verif/seeded/$s/patch.diff || { echo "$s: patch does not apply"; continue; }
  out=$(bin/rdmcheck -property all -tier quick -fixtures=false 2>&1)
  out2=$(bin/rdmcheck -property $prop -tier quick -fixtures=false 2>&1)
  git -C /repo checkout -- . ; git -C /repo clean -fdq -e httpClient/httpClient
  own=$(echo "$out2" | grep '^  violated')
  rules=$(echo "$own" | sed 's/^  violated \([^|]*\)|\([^|]*\)|.*/\1 @ \2/' | sort -u | head -4 | tr '\n' ';' | sed 's/;$//; s/;/; /g')
  others=$(echo "$out" | grep '^VIOLATION' | sed 's/.*property=\([A-Z0-9]*\).*/\1/' | sort -u | grep -v "^$prop$" | tr '\n' ' ' | sed 's/ $//')
  title=$(python3 -c "import json,sys; print(json.load(open('seeded/$s/meta.json')).get('title','')[:110].replace('|','/'))")
  echo "| $s | $title | $rules | $others |"
done
