#!/bin/bash
# cross_hits.sh: for every seeded change, which (property, rule) pairs report it. Output: seed own_prop prop rule count
cd /verif
for s in $(ls seeded | sort -V); do
  prop=${s%%-*}
  git -C /repo apply /verif/seeded/$s/patch.diff || continue
  out=$(bin/rdmcheck -property all -tier quick -fixtures=false 2>&1)
  git -C /repo checkout -- . ; git -C /repo clean -fdq -e httpClient/httpClient
  echo "$out" | python3 -c "
import sys,re,collections
cur=None; acc=collections.Counter(); pend=[]
for line in sys.stdin:
    m=re.match(r'  violated ([^|]+)\|',line)
    if m: pend.append(m.group(1)); continue
    m=re.match(r'(C\d\d) quick:',line)
    if m:
        for r in pend: acc[(m.group(1),r)]+=1
        pend=[]
for (p,r),n in sorted(acc.items()): print('$s','$prop',p,r,n)
"
done
