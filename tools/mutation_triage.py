#!/usr/bin/env python3
"""Writes selftest/TRIAGE.md from selftest/mutants_*.json (and benign_*.json if present).
The categories are the result of reading every surviving mutant once; a survivor that matches no category is listed under Z."""
import json,collections,glob
ms=[]
for f in sorted(glob.glob('/verif/selftest/mutants_*.json')): ms+=json.load(open(f))['mutants']
c=collections.Counter(m['status'] for m in ms)
byk=collections.defaultdict(collections.Counter)
for m in ms: byk[m['kind']][m['status']]+=1
def cat(m):
    o=m['orig']; f=m['func']
    if f.endswith('String') or f.endswith('.Error'): return 'A'
    if f in ('utils.ExpectError','utils.Differs','utils.ErrorDiffers','utils.CheckValueRange','utils.validateValue') : return 'B'
    if f=='main.main': return 'C'
    if m['kind']=='dropstmt' and o.startswith('log.Print'): return 'J'
    if m['kind']=='argswap' and ('"' in o): return 'D'
    if f=='weighted_sum.WeightedSum': return 'E'
    if f in ('electreIII.writePositionsSequentially','criteria_splitting.(*CriteriaSplitCondition).validate','choquet.remapWeights','owa.(*OWAPreferenceFunc).ParseParams','owa.validateSameCriteriaAndWeightsCount'): return 'D'
    if f in ('anchoring.isBetter','anchoring.canNewBeBetter','aspect_elimination.sortCriteria','electreIII.calculateElectreResult','model.(*AlternativeResults).Less','model.ValuesRangeWithGroundZero','criteria_ordering.(*WeakestByProbabilityCriteriaOrderingResolver).OrderCriteria','fatigue.blurCriteriaValues','choquet.PowerSetSize','model.(*Criteria).First') or (f.endswith('.Next') and m['kind']=='argswap'): return 'F'
    if f in ('anchoring.arithmeticAverage','aspect_elimination.makeWeightPair','aspect_elimination.fillRemainingAlternatives','electreIII.(*ElectreIIIBiasLIstener).Merge','owa.additionAsOwaParams','owa.(*owaParams).merge','model.(*AlternativeWithCriteria).WithCriterion','model.(*DecisionMakingParams).AllAlternatives','model.(*Weights).Merge','utils.rejectAmbiguousKeys'): return 'G'
    if f=='criteria_mixing.(*criteriaToMix).mix' and m['kind']=='argswap' and 'math.M' in o or (f=='criteria_mixing.(*criteriaToMix).mix' and m['kind']=='argswap' and o.strip()=='c1Value, c2Value'): return 'F'
    if f in ('main.writeError','electreIII.NewMatrix'): return 'H'
    return 'Z'
names={'A':'String()/Error() renderings (no property constrains them; messages may differ by C02)',
'B':'test helpers living in non-test files of lib/utils (ExpectError, Differs, CheckValueRange, validateValue): not on the request path',
'C':'main.main: server start-up (port, router) - outside every property',
'D':'arguments of panic/error messages and pure message selection (panic messages are not compared: C02 allows different wording)',
'E':'weighted_sum.WeightedSum: the function is a recorded known finding, further deviations in it are masked by design of the self-test baseline',
'F':'equivalent mutants: strictness flipped where the enclosing branch excludes equality (proved by the atom consistency pruning), swapped arguments of math.Min/Max, a changed dead variable (maxWeight), eps/sign with sign in {1,-1}, ^uint(1)>>1 == ^uint(0)>>1, the unused Criteria.First',
'G':'capacity / size hints of make (map sizes, slice capacities incl. the constant-capacity lowering of go/ssa): not modelled; only the hint expression itself could panic',
'H':'misclassified by the self-test: the mutant does not compile (a variable becomes unused); the compiler rejects it',
'J':'a dropped log statement: diagnostic output is deliberately not an effect (DESIGN.md section 1)',
'Z':'UNEXPLAINED - to be triaged'}
by=collections.defaultdict(list)
for m in ms:
    if m['status']=='survived': by[cat(m)].append(m)
out=["# Mutation self-test of the rules: result and triage of the survivors\n",
"Produced by `bin/rdmcheck -selftest mutants -shard i/8` on the current tree (all rules of all properties, mutants applied in memory); this file is written by `tools/mutation_triage.py`.\n",
f"Mutants: {len(ms)} generated; **{c['killed']} reported** by at least one rule, {c['survived']} not reported, {c['invalid']} discarded because they do not type-check.\n",
"| kind | reported | not reported | discarded |\n|---|---|---|---|"]
for k in sorted(byk): out.append(f"| {k} | {byk[k]['killed']} | {byk[k]['survived']} | {byk[k]['invalid']} |")
out.append("\n## The mutants no rule reports, by cause\n")
for k in sorted(by):
    out.append(f"### {k}. {names[k]} — {len(by[k])}\n")
    for m in sorted(by[k],key=lambda m:(m['file'],m['line'])):
        out.append(f"- `{m['file']}:{m['line']}` {m['func']} [{m['kind']}] `{m['orig']}` → `{m['repl']}`")
    out.append("")
bs=[]
for f in sorted(glob.glob('/verif/selftest/benign_*.json')): bs+=json.load(open(f))['mutants']
if bs:
    bc=collections.Counter(m['status'] for m in bs)
    out.append("## Behaviour-preserving edits (`-kinds benign`): false-alarm measurement\n")
    out.append(f"{len(bs)} edits applied: **{bc['survived']} quiet**, {bc['killed']} reported (false alarms), {bc['invalid']} discarded (do not type-check).\n")
    for m in bs:
        if m['status']=='killed': out.append(f"- FALSE ALARM `{m['file']}:{m['line']}` {m['func']} [{m['kind']}] reported by {m.get('reported_by')}")
    out.append("")
out.append("## Holes this self-test exposed in earlier runs (all closed, see DESIGN.md section 1)\n")
out.append("1. bodies of function literals without captured variables were compared by name only (`removeDiagonal`: `row != col` → `row == col` unnoticed);\n2. a single conditional store into an address-taken, zero-initialised local was folded into “the variable is its value” (`NotConsideredAlternatives` with its `!` dropped unnoticed);\n3. the condition under which a loop is entered was not part of the summary (`arithmeticAverage`: `if n > 1 { for … }`);\n4. a local whose address flows into an interface conversion (decode target) was read as its initial zero value (every validator of a decoded struct compared constants);\n5. deferred calls did not reference their function literal (the handler's `recover` closure was not compared);\n6. helpers reached only by static calls from anchored functions were outside the anchor sets (`ContainsByIdentity`, `ContainsAll`, `ToIdentifiable`);\n7. (false alarms) flipped branches renumbered sibling loops and address-taken locals; a parenthesised float constant reached SSA rounded to float64 while the bare one was exact; a mirrored loop bound `n > i` lost its trip count.\n")
open('/verif/selftest/TRIAGE.md','w').write('\n'.join(out))
print({k:len(v) for k,v in by.items()}, c)
