#!/bin/bash
# verify_refactor.sh <srcdir> <name>: confirm a behaviour-preserving refactoring: patch applies, suite green,
# differential transcript identical (run_equiv.sh clean patched). Copies it to /verif/refactors/<name>/.
src=$1; name=$2
export GOFLAGS=-mod=mod GOPROXY=off GOSUMDB=off GOTOOLCHAIN=local
a=/tmp/sv/$name.clean; b=/tmp/sv/$name.patched; log=/tmp/sv/$name.log
mkdir -p /tmp/sv; rm -rf $a $b; mkdir -p $a $b
git -C /repo archive HEAD | tar -x -C $a; git -C /repo archive HEAD | tar -x -C $b
{
( cd $b && git init -q . >/dev/null 2>&1; git apply $src/patch.diff ); ap=$?
( cd $b/lib && go build ./... && go test -vet=off -count=1 ./... >/dev/null 2>&1 ); tests=$?
( cd $src && timeout 600 bash run_equiv.sh $a $b ); eq=$?
echo "apply=$ap tests=$tests equiv=$eq"
} > $log 2>&1
nontest=$(grep '^+++ ' $src/patch.diff | grep -c '_test.go')
rm -rf $a $b
if [ $ap -eq 0 ] && [ $tests -eq 0 ] && [ $eq -eq 0 ] && [ $nontest -eq 0 ]; then
  dst=/verif/refactors/$name; rm -rf $dst; mkdir -p $dst
  cp $src/patch.diff $src/meta.json $src/run_equiv.sh $dst/; cp -r $src/demo $dst/ 2>/dev/null
  echo "$name: CONFIRMED"
else
  echo "$name: REJECTED apply=$ap tests=$tests equiv=$eq testfiles=$nontest (log $log)"
fi
