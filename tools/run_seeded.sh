#!/bin/bash
# run_seeded.sh [seed-name...]: apply each seeded change to /repo, run every check, undo it.
# Prints one line per seed: which properties reported a VIOLATION (and whether the seed's own property did).
cd /verif
seeds="$@"; [ -z "$seeds" ] && seeds=$(ls seeded)
if [ -n "$(git -C /repo status --porcelain --untracked-files=no)" ]; then echo "/repo has local changes"; exit 2; fi
for s in $seeds; do
  prop=${s%%-*}
  git -C /repo apply /verif/seeded/$s/patch.diff || { echo "$s: patch does not apply"; continue; }
  out=$(bin/rdmcheck -property all -tier quick -fixtures=false 2>&1)
  git -C /repo checkout -- . ; git -C /repo clean -fdq -e httpClient/httpClient
  hits=$(echo "$out" | grep '^VIOLATION' | sed 's/.*property=\([A-Z0-9]*\).*/\1/' | sort -u | tr '\n' ' ')
  broken=$(echo "$out" | grep -c '^CHECKER-BROKEN\|^UNDECIDED')
  own=MISSED; echo " $hits" | grep -q " $prop " && own=caught
  echo "$s: own=$own hits=[$hits] broken=$broken"
  if [ -n "$VERBOSE" ]; then echo "$out" | grep 'violated\|BROKEN\|UNDECIDED' | head -${VERBOSE}; fi
done
