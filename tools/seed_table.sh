#!/bin/bash
# seed_table.sh: for every seeded change, apply it to /repo, run the check of its own property, undo it,
# and print a markdown table row: seed | what changed | rules that reported it (own property) | functions named.
cd /verif
if [ -n "$(git -C /repo status --porcelain --untracked-files=no)" ]; then echo "/repo has local changes"; exit 2; fi
for s in $(ls seeded | sort -V); do
  prop=${s%%-*}
  git -C /repo apply /verif/seeded/$s/patch.diff || { echo "$s: patch does not apply"; continue; }
  out=$(bin/rdmcheck -property $prop -tier quick -fixtures=false 2>&1)
  git -C /repo checkout -- . ; git -C /repo clean -fdq -e httpClient/httpClient
  rules=$(echo "$out" | grep '^  violated' | sed 's/^  violated \([^|]*\)|\([^|]*\)|.*/\1 @ \2/' | sort -u | head -4 | tr '\n' ';' | sed 's/;$//; s/;/; /g')
  n=$(echo "$out" | grep -c '^VIOLATION')
  title=$(python3 -c "import json,sys; print(json.load(open('seeded/$s/meta.json')).get('title','')[:110].replace('|','/'))")
  echo "| $s | $title | $n | $rules |"
done
