#!/usr/bin/env python3
"""Authoring aid (not used by any check): writes, per repository package, spec/<dir>/types.go holding a Spec_ twin of
every struct type (exported fields, types and tags are what the API and the decoders see)."""
import re, os, sys
def pkg_name(path):
    base = '/repo/lib/' + path.split('RealDecisionMaker/lib/')[-1] if 'RealDecisionMaker/lib' in path else None
    if base and os.path.isdir(base):
        for f in sorted(os.listdir(base)):
            if f.endswith('.go') and not f.endswith('_test.go'):
                m = re.search(r'^package (\w+)', open(os.path.join(base, f)).read(), re.M)
                if m: return m.group(1)
    return path.split('/')[-1]
def run(root, reldirs, out):
    total = 0
    for d in reldirs:
        src = os.path.join(root, d)
        files = [f for f in sorted(os.listdir(src)) if f.endswith('.go') and not f.endswith('_test.go')]
        pkg = None; imports = {}; decls = []
        for f in files:
            s = open(os.path.join(src, f)).read()
            pkg = re.search(r'^package (\w+)', s, re.M).group(1)
            mi = re.search(r'^import \((.*?)^\)', s, re.M|re.S)
            lines = mi.group(1).splitlines() if mi else re.findall(r'^import (.*)$', s, re.M)
            for line in lines:
                m = re.match(r'^\s*(?:([\w.]+)\s+)?"([^"]+)"\s*$', line)
                if m: imports[m.group(2)] = m.group(1)
            for m in re.finditer(r'^type (\w+) struct \{\n(.*?)^\}\n', s, re.M|re.S):
                decls.append('type Spec_%s struct {\n%s}\n' % (m.group(1), m.group(2)))
            for m in re.finditer(r'^type (\w+) struct \{\s*\}\n', s, re.M):
                decls.append('type Spec_%s struct {\n}\n' % m.group(1))
        if not decls: continue
        body = '\n'.join(decls)
        keep = []
        for path, alias in sorted(imports.items()):
            if alias == '.':
                keep.append('\t. "%s"' % path); continue
            name = alias or pkg_name(path)
            if re.search(r'\b%s\.' % re.escape(name), body):
                keep.append('\t%s"%s"' % ((alias + ' ') if alias else '', path))
        hdr = '// Reference declarations of the struct types of this package (fields, types and tags as the API documents them).\n// Loaded by the analyzer as an in-memory overlay only; see DESIGN.md, engine E5 (rule E5-types).\n\n'
        imp = ('import (\n' + '\n'.join(keep) + '\n)\n\n') if keep else ''
        dst = os.path.join(out, d, 'types.go')
        os.makedirs(os.path.dirname(dst), exist_ok=True)
        open(dst, 'w').write(hdr + 'package %s\n\n' % pkg + imp + body)
        total += len(decls)
    print('struct types:', total)
if __name__ == '__main__':
    dirs = []
    for d, _, files in os.walk('/repo/lib'):
        if 'testUtils' in d or d.endswith('/client'): continue
        if any(f.endswith('.go') and not f.endswith('_test.go') for f in files):
            dirs.append(os.path.relpath(d, '/repo'))
    dirs.append('httpClient')
    run('/repo', dirs, sys.argv[1])
