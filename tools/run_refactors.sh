#!/bin/bash
# run_refactors.sh [name...]: apply each confirmed behaviour-preserving refactoring to /repo, run every check, undo it.
# Any VIOLATION / non-zero exit here is a false alarm of the machinery.
cd /verif
names="$@"; [ -z "$names" ] && names=$(ls refactors)
if [ -n "$(git -C /repo status --porcelain --untracked-files=no)" ]; then echo "/repo has local changes"; exit 2; fi
for s in $names; do
  git -C /repo apply /verif/refactors/$s/patch.diff || { echo "$s: patch does not apply"; continue; }
  out=$(bin/rdmcheck -property all -tier quick -fixtures=false 2>&1)
  git -C /repo checkout -- . ; git -C /repo clean -fdq -e httpClient/httpClient
  hits=$(echo "$out" | grep '^VIOLATION' | sed 's/.*property=\([A-Z0-9]*\).*/\1/' | sort -u | tr '\n' ' ')
  nv=$(echo "$out" | grep -c '^  violated')
  broken=$(echo "$out" | grep -c '^CHECKER-BROKEN\|^UNDECIDED')
  st=quiet; [ -n "$hits" ] && st=FALSE-ALARM; [ "$broken" != "0" ] && st="$st+broken"
  echo "$s: $st hits=[$hits] violated_obligations=$nv broken=$broken"
  if [ -n "$VERBOSE" ]; then echo "$out" | grep '^  violated\|BROKEN\|UNDECIDED' | cut -c1-${WIDTH:-260} | sort -u | head -${VERBOSE}; fi
done
