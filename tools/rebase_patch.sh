#!/bin/bash
# rebase_patch.sh <dir with patch.diff> <old base commit>: re-create patch.diff against /repo HEAD by a 3-way cherry-pick.
d=$1; base=$2; name=$(basename $d)
wt=/tmp/rb/$name; mkdir -p /tmp/rb; rm -rf $wt; git -C /repo worktree prune
git -C /repo apply --check $d/patch.diff 2>/dev/null && { echo "$name: applies"; exit 0; }
git -C /repo worktree add -q --detach $wt $base || exit 2
trap "git -C /repo worktree remove --force $wt 2>/dev/null" EXIT
git -C $wt apply $d/patch.diff || { echo "$name: does not apply to its base $base"; exit 1; }
git -C $wt add -A && git -C $wt -c user.name=x -c user.email=x@x commit -q -m tmp
c=$(git -C $wt rev-parse HEAD)
git -C $wt checkout -q --detach $(git -C /repo rev-parse HEAD)
if git -C $wt -c user.name=x -c user.email=x@x cherry-pick $c >/dev/null 2>&1; then
  git -C $wt diff HEAD~1 HEAD > $d/patch.diff.new && mv $d/patch.diff.new $d/patch.diff && echo "$name: rebased"
else
  echo "$name: CONFLICT"; git -C $wt diff --name-only --diff-filter=U | sed 's/^/    /'
  git -C $wt cherry-pick --abort
fi
